---- MODULE TraceSpike ----
EXTENDS FpSpike, Json, IOUtils, Sequences
Rec == ndJsonDeserialize(IOEnv.TRACE)
VARIABLES l, mode, bad, known
vars == <<l, mode, bad, known>>
Num(j) == Mk(j.s, j.m)
D(j) == [c |-> Num(j), f |-> j.f]
Out(j) == IF j.k = "ret" THEN Ret(Num(j), j.f) ELSE Fail
Init == l = 1 /\ mode = "RoundHalfEven" /\ bad = <<>> /\ known = <<>>
SetMode == l <= Len(Rec) /\ Rec[l].ev = "set" /\ mode' = Rec[l].mode /\ l' = l + 1 /\ UNCHANGED <<bad, known>>
Call == /\ l <= Len(Rec) /\ Rec[l].ev = "call"
        /\ LET e == Rec[l]  x == D(e.x)  y == D(e.y)  o == Out(e.out)
               al == DivRoundedAllowed(x, y, e.n, mode) IN
           IF o \in al THEN UNCHANGED <<bad, known>>
           ELSE IF o \in Dev_TruncFirst(x, y, e.n, mode) THEN known' = Append(known, <<"F2", l>>) /\ UNCHANGED bad
           ELSE IF o \in Dev_WideSignFixup(x, y, e.n, mode) THEN known' = Append(known, <<"F1", l>>) /\ UNCHANGED bad
           ELSE bad' = Append(bad, l) /\ UNCHANGED known
        /\ l' = l + 1 /\ UNCHANGED mode
Next == SetMode \/ Call
Spec == Init /\ [][Next]_vars
Report == l <= Len(Rec) \/ PrintT(<<"RESULT", Len(Rec), "bad", bad, "knownF1", Len(SelectSeq(known, LAMBDA p: p[1] = "F1")), "knownF2", Len(SelectSeq(known, LAMBDA p: p[1] = "F2"))>>)
Accepted == TLCGet("stats").diameter - 1 = Len(Rec)
====
