---------------------------- MODULE MC_Parser ----------------------------
(* C06 / C07 / C18, design level: an implementation-shaped step machine of   *)
(* fpdec-core/src/parser.rs (str_to_dec: sign, leading zeros, accum_coeff    *)
(* with its K-digit chunk loop followed by the single-digit loop, fraction,  *)
(* exponent with capped accumulation) and of src/from_str.rs (fraction limit,*)
(* exponent limit, checked_mul_pow_ten), in miniature: the accumulator is a  *)
(* UBits-bit unsigned integer that saturates, the coefficient a (UBits-1)-bit*)
(* signed one, chunks are K digits instead of 8.  One action per loop        *)
(* iteration / branch of the code.  Checked for EVERY string over Alpha up   *)
(* to LMax bytes against the declarative value rule FpText!ParseOk that      *)
(* Trace.tla applies to the crate, plus the memory-safety rule of the pstep  *)
(* hook (no skip / read beyond the end).                                     *)
(* Variants (negative controls): "wrap_add" (seed C06-d: saturating multiply *)
(* but wrapping add), "wrap" (no saturation at all), "lz_invalid" (a literal *)
(* of zeros only before '.'/'e' counted as having no digits), "macro_bound"  *)
(* (the Dec! macro's own exponent limit one too small: MacroAgrees, C18).    *)
(* The done-states also print the action path of every string ("PATH ..."):  *)
(* bin/plan.py keeps one string per distinct path and expands each K-digit   *)
(* chunk to 8 (and 16, 24) digits for the crate - one implementation test    *)
(* per path of the model.                                                    *)
EXTENDS Naturals, Integers, Sequences, TLC, Json
CONSTANTS Alpha, LMax, K, UBits, MaxFracP, Variant, EmitPaths

T == INSTANCE FpText WITH MaxFrac <- MaxFracP, CoeffBits <- UBits - 1

UMax == 2^UBits - 1
IMaxP == 2^(UBits - 1) - 1
RECURSIVE NDig(_)
NDig(n) == IF n < 10 THEN 1 ELSE 1 + NDig(n \div 10)
ExpMax == NDig(IMaxP) - 1                     \* 38 in the crate
ExpCap == 100                                  \* 0x1000000 in the crate: accumulation stops above it
SatMul(a, m) == IF a * m > UMax THEN UMax ELSE a * m
SatAdd(a, b) == IF a + b > UMax THEN UMax ELSE a + b
Mul(a, m) == IF Variant = "wrap" THEN (a * m) % (UMax + 1) ELSE SatMul(a, m)
Add(a, b) == IF Variant \in {"wrap", "wrap_add"} THEN (a + b) % (UMax + 1) ELSE SatAdd(a, b)
IsDig(b) == 48 <= b /\ b <= 57

RECURSIVE AllSeqs(_)
AllSeqs(n) == IF n = 0 THEN {<<>>} ELSE LET s == AllSeqs(n - 1) IN s \cup {Append(x, a) : x \in {y \in s : Len(y) = n - 1}, a \in Alpha}

VARIABLES inp, pos, pc, neg, nlz, coeff, nint, nfrac, exp, eneg, nexp, res, safe, path
vars == <<inp, pos, pc, neg, nlz, coeff, nint, nfrac, exp, eneg, nexp, res, safe, path>>

Rem == Len(inp) - pos + 1                      \* bytes left
First == IF Rem > 0 THEN inp[pos] ELSE 0       \* 0: None
Done(r, tag) == pc' = "done" /\ res' = r /\ path' = Append(path, tag)
             /\ UNCHANGED <<inp, pos, neg, nlz, coeff, nint, nfrac, exp, eneg, nexp, safe>>
Err == [k |-> "err"]
Skip(n, tag) == pos' = pos + n /\ safe' = (safe /\ n <= Rem) /\ path' = Append(path, tag)

Init == /\ inp \in AllSeqs(LMax) /\ pos = 1 /\ pc = "sign" /\ neg = FALSE /\ nlz = 0 /\ coeff = 0 /\ nint = 0 /\ nfrac = 0
        /\ exp = 0 /\ eneg = FALSE /\ nexp = 0 /\ res = [k |-> "none"] /\ safe = TRUE /\ path = <<>>

Sign == /\ pc = "sign"
        /\ IF Rem = 0 THEN Done([k |-> "empty"], "empty")
           ELSE IF First \in {43, 45}
                THEN /\ Skip(1, "sign") /\ neg' = (First = 45)
                     /\ pc' = "sign2" /\ UNCHANGED <<inp, nlz, coeff, nint, nfrac, exp, eneg, nexp, res>>
                ELSE pc' = "lz" /\ UNCHANGED <<inp, pos, neg, nlz, coeff, nint, nfrac, exp, eneg, nexp, res, safe, path>>
Sign2 == /\ pc = "sign2"
         /\ IF Rem = 0 THEN Done(Err, "only_sign")
            ELSE pc' = "lz" /\ UNCHANGED <<inp, pos, neg, nlz, coeff, nint, nfrac, exp, eneg, nexp, res, safe, path>>
LeadZero == /\ pc = "lz"
            /\ IF First = 48
               THEN Skip(1, "z") /\ nlz' = nlz + 1 /\ UNCHANGED <<inp, pc, neg, coeff, nint, nfrac, exp, eneg, nexp, res>>
               ELSE IF Rem = 0
                    THEN Done([k |-> "ok", c |-> 0, f |-> 0], "zeros_only")          \* Ok((0, 0))
                    ELSE pc' = "ichunk" /\ UNCHANGED <<inp, pos, neg, nlz, coeff, nint, nfrac, exp, eneg, nexp, res, safe, path>>
\* accum_coeff, first loop: one K-digit chunk per step; part = "i" | "f"
ChunkAllDigits == \A j \in 0..(K - 1) : IsDig(inp[pos + j])
ChunkVal == LET RECURSIVE V(_, _)
                V(j, acc) == IF j = K THEN acc ELSE V(j + 1, acc * 10 + (inp[pos + j] - 48))
            IN V(0, 0)
Chunk(part) ==
  /\ pc = part \o "chunk"
  /\ IF Rem >= K /\ ChunkAllDigits
     THEN /\ coeff' = Add(Mul(coeff, 10^K), ChunkVal)
          /\ Skip(K, part \o "C")
          /\ IF part = "i" THEN nint' = nint + K /\ UNCHANGED nfrac ELSE nfrac' = nfrac + K /\ UNCHANGED nint
          /\ UNCHANGED <<inp, pc, neg, nlz, exp, eneg, nexp, res>>
     ELSE /\ pc' = part \o "single"
          /\ path' = Append(path, IF Rem < K THEN part \o "short" ELSE part \o "mixed")     \* why the chunk loop was left
          /\ UNCHANGED <<inp, pos, neg, nlz, coeff, nint, nfrac, exp, eneg, nexp, res, safe>>
Single(part) ==
  /\ pc = part \o "single"
  /\ IF IsDig(First)
     THEN /\ coeff' = Add(Mul(coeff, 10), First - 48)
          /\ Skip(1, part \o "S")
          /\ IF part = "i" THEN nint' = nint + 1 /\ UNCHANGED nfrac ELSE nfrac' = nfrac + 1 /\ UNCHANGED nint
          /\ UNCHANGED <<inp, pc, neg, nlz, exp, eneg, nexp, res>>
     ELSE /\ pc' = IF part = "i" THEN "dot" ELSE "chk"
          /\ UNCHANGED <<inp, pos, neg, nlz, coeff, nint, nfrac, exp, eneg, nexp, res, safe, path>>
Dot == /\ pc = "dot"
       /\ IF First = 46
          THEN Skip(1, "dot") /\ pc' = "fchunk" /\ UNCHANGED <<inp, neg, nlz, coeff, nint, nfrac, exp, eneg, nexp, res>>
          ELSE pc' = "chk" /\ UNCHANGED <<inp, pos, neg, nlz, coeff, nint, nfrac, exp, eneg, nexp, res, safe, path>>
NoDigits == IF Variant = "lz_invalid" THEN nint + nfrac = 0 ELSE nint + nfrac = 0 /\ nlz = 0
Chk == /\ pc = "chk"
       /\ IF NoDigits THEN Done(Err, "no_digits")
          ELSE IF coeff > IMaxP THEN Done(Err, "coeff_overflow")
          ELSE IF Rem = 0 THEN pc' = "fin" /\ UNCHANGED <<inp, pos, neg, nlz, coeff, nint, nfrac, exp, eneg, nexp, res, safe, path>>
          ELSE IF First \in {101, 69}
               THEN Skip(1, "e") /\ pc' = "esign" /\ UNCHANGED <<inp, neg, nlz, coeff, nint, nfrac, exp, eneg, nexp, res>>
               ELSE Done(Err, "junk_after_mantissa")
ESign == /\ pc = "esign"
         /\ IF Rem = 0 THEN Done(Err, "e_at_end")
            ELSE IF First \in {43, 45}
                 THEN /\ Skip(1, "esign") /\ eneg' = (First = 45) /\ pc' = "edig"
                      /\ UNCHANGED <<inp, neg, nlz, coeff, nint, nfrac, exp, nexp, res>>
                 ELSE pc' = "edig" /\ UNCHANGED <<inp, pos, neg, nlz, coeff, nint, nfrac, exp, eneg, nexp, res, safe, path>>
EDig == /\ pc = "edig"
        /\ IF IsDig(First)
           THEN /\ exp' = IF exp < ExpCap THEN exp * 10 + (First - 48) ELSE exp
                /\ nexp' = nexp + 1 /\ Skip(1, IF exp < ExpCap THEN "X" ELSE "Xcap")
                /\ UNCHANGED <<inp, pc, neg, nlz, coeff, nint, nfrac, eneg, res>>
           ELSE IF nexp = 0 THEN Done(Err, "no_exp_digits")
           ELSE IF Rem # 0 THEN Done(Err, "junk_after_exp")
           ELSE pc' = "fin" /\ UNCHANGED <<inp, pos, neg, nlz, coeff, nint, nfrac, exp, eneg, nexp, res, safe, path>>
\* end of str_to_dec and all of from_str
Fin == /\ pc = "fin"
       /\ LET e == (IF eneg THEN 0 - exp ELSE exp) - nfrac
              c == IF neg THEN 0 - coeff ELSE coeff
          IN IF 0 - e > MaxFracP THEN Done(Err, "frac_limit")
             ELSE IF e > ExpMax THEN Done(Err, "exp_limit")
             ELSE IF e < 0 THEN Done([k |-> "ok", c |-> c, f |-> 0 - e], "ok_frac")
             ELSE IF coeff * 10^e > IMaxP THEN Done(Err, "mul_overflow")
             ELSE Done([k |-> "ok", c |-> c * 10^e, f |-> 0], IF e = 0 THEN "ok_int" ELSE "ok_scaled")
\* fpdec-macros/src/lib.rs: Dec! runs the same str_to_dec and then folds the exponent with its own code (C18)
MacroOutcome ==
  LET e == (IF eneg THEN 0 - exp ELSE exp) - nfrac
      c == IF neg THEN 0 - coeff ELSE coeff
  IN IF 0 - e > MaxFracP THEN Err
     ELSE IF e > (IF Variant = "macro_bound" THEN ExpMax - 1 ELSE ExpMax) THEN Err
     ELSE IF e > 0 THEN (IF c * 10^e > IMaxP \/ c * 10^e < 0 - IMaxP - 1 THEN Err ELSE [k |-> "ok", c |-> c * 10^e, f |-> 0])
     ELSE [k |-> "ok", c |-> c, f |-> 0 - e]
FinTags == {"frac_limit", "exp_limit", "ok_frac", "mul_overflow", "ok_int", "ok_scaled"}
MacroAgrees == (pc = "done" /\ path[Len(path)] \in FinTags) => MacroOutcome = res
Next == Sign \/ Sign2 \/ LeadZero \/ Chunk("i") \/ Single("i") \/ Dot \/ Chunk("f") \/ Single("f") \/ Chk \/ ESign \/ EDig \/ Fin
Spec == Init /\ [][Next]_vars

(* ---- properties ---- *)
\* BigInt literal of a native integer (magnitudes here are below 10^8: at most two limbs)
Big(n) == LET a == IF n < 0 THEN 0 - n ELSE n IN
          IF n = 0 THEN T!Z0 ELSE T!Mk(IF n < 0 THEN -1 ELSE 1, IF a < 10000 THEN <<a>> ELSE <<a % 10000, a \div 10000>>)
Outcome == IF res.k = "ok" THEN [k |-> "ok", c |-> Big(res.c), f |-> res.f] ELSE res
Refines == pc = "done" => T!ParseOk(inp, Outcome)          \* the value rule of C06 / C18
MemSafe == safe                                             \* the pstep rule
Terminates == pc # "done" => ENABLED Next                   \* no stuck state before a result
EmitPath == pc # "done" \/ ~EmitPaths \/ PrintT("PATH " \o ToJson([s |-> inp, p |-> path]))
=======================================================================
