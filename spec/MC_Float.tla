---------------------------- MODULE MC_Float ----------------------------
(* C12 / C13, design level: a miniature transcription of src/into_float.rs  *)
(* (Float::from_decimal: normalising shifts computed from leading zeros,    *)
(* three extra quotient bits + sticky bit, `adj`, exponent assembled by     *)
(* adding the significand with its hidden bit) and of src/from_float.rs     *)
(* (decode, the `exponent < -126` cut-off, approx_rational's digit loop with*)
(* its final half-even step, normalize, checked shift for integral values), *)
(* with a WB-bit machine word instead of 128 bits and a mini binary float   *)
(* (FB fraction bits, 5 exponent bits, bias 15).  Checked for EVERY Decimal *)
(* with |coefficient| <= CMax, scale <= MaxFracP, and EVERY mini float,      *)
(* against the declarative rules FpFloat!ToFloat / FpFloat!FromFloat that   *)
(* Trace.tla applies to the crate.                                          *)
(* Variants are negative controls: "no_sticky" (remainder ignored),         *)
(* "tie_up" (ties away from even), "adj_off" (the one-bit-short quotient is *)
(* not compensated), "trunc" (approx_rational without its rounding step),   *)
(* "no_norm" (trailing zeros kept), "cutoff" (cut-off one binade too early).*)
EXTENDS Naturals, Integers, Sequences, TLC
CONSTANTS WB, FB, CMax, MaxFracP, Variant, Dir      \* Dir: "into" | "from"

Bias == 15
EBmax == 31
F == INSTANCE FpFloat WITH MaxFrac <- MaxFracP, CoeffBits <- WB - 1

RECURSIVE Bits(_)
Bits(v) == IF v = 0 THEN 0 ELSE 1 + Bits(v \div 2)
Lz(v) == WB - Bits(v)
Sat(a) == IF a < 0 THEN 0 ELSE a
Abs(z) == IF z < 0 THEN 0 - z ELSE z
Big(n) == LET a == Abs(n) IN
          IF n = 0 THEN F!Z0 ELSE F!Mk(IF n < 0 THEN -1 ELSE 1, IF a < 10000 THEN <<a>> ELSE <<a % 10000, a \div 10000>>)

(* ---- into_float.rs ---- *)
FromDecimal(c, f) ==
  LET addBits == FB + 3
      num0 == Abs(c)
      den0 == 10^f
      numLz == Lz(num0)
      denLz == Lz(den0)
      numShl == Sat(numLz + addBits - denLz)
      denShl == Sat(Sat(denLz - numLz) - addBits)
      num == num0 * 2^numShl
      den == den0 * 2^denShl
      quot == num \div den
      rem == num % den
      adj == IF Variant = "adj_off" THEN 0 ELSE IF Bits(quot) = addBits THEN 1 ELSE 0
      base == (quot % (IF adj = 1 THEN 4 ELSE 8)) * 2^adj
      sticky == IF Variant = "no_sticky" THEN 0 ELSE IF rem # 0 /\ base % 2 = 0 THEN 1 ELSE 0
      rnd == base + sticky
      signif == quot \div 2^(3 - adj)
      exp == denLz - numLz - adj
      bits0 == signif + (Bias + exp - 1) * 2^FB
      up == IF Variant = "tie_up" THEN rnd >= 4 ELSE rnd > 4 \/ (rnd = 4 /\ signif % 2 = 1)
      bits == bits0 + (IF up THEN 1 ELSE 0)
  IN [fits |-> num < 2^WB /\ den < 2^WB, sign |-> IF c < 0 THEN 1 ELSE 0, bexp |-> bits \div 2^FB, frac |-> bits % 2^FB]
\* From<Decimal>: integral and zero values use the native cast (declarative here), everything else from_decimal
IntoOk(c, f) ==
  LET want == F!ToFloat(Big(c), f, FB, Bias) IN
  IF f = 0 \/ c = 0 THEN TRUE
  ELSE LET got == FromDecimal(c, f) IN
       got.fits /\ got.sign = want.sign /\ got.bexp = want.bexp /\ Big(got.frac) = want.frac

(* ---- from_float.rs ---- *)
RECURSIVE Magn(_)
Magn(v) == IF v < 10 THEN 0 ELSE 1 + Magn(v \div 10)        \* i128_magnitude
MagnMax == Magn(2^(WB - 1) - 1)                              \* 38 in the crate
RECURSIVE Digits(_,_,_,_,_)
Digits(coeff, rem, nf, mg, divisor) ==                        \* the while loop; <<coeff, rem, nf, largest intermediate>>
  IF rem # 0 /\ nf < MaxFracP /\ mg < MagnMax - 1
  THEN LET r10 == rem * 10 IN Digits(coeff * 10 + (r10 \div divisor), r10 % divisor, nf + 1, mg + 1, divisor)
  ELSE <<coeff, rem, nf>>
RECURSIVE Normalize(_,_)
Normalize(c, nf) == IF Variant = "no_norm" THEN <<c, nf>>
                    ELSE IF c = 0 THEN <<0, 0>> ELSE IF nf > 0 /\ c % 10 = 0 THEN Normalize(c \div 10, nf - 1) ELSE <<c, nf>>
ApproxRational(divident, divisor) ==
  IF divisor = 1 THEN <<divident, 0>>
  ELSE IF divident = 0 THEN <<0, 0>>
  ELSE LET a == Abs(divident)
           st == Digits(a \div divisor, a % divisor, 0, Magn(a \div divisor), divisor)
           r2 == st[2] * 2
           c1 == IF Variant # "trunc" /\ (r2 > divisor \/ (r2 = divisor /\ st[1] % 2 = 1)) THEN st[1] + 1 ELSE st[1]
           n == Normalize(c1, st[3])
       IN <<(IF divident < 0 THEN 0 - n[1] ELSE n[1]), n[2]>>
Cut == IF Variant = "cutoff" THEN 0 - (WB - 2) + 8 ELSE 0 - (WB - 2)            \* -126 in the crate
TryFrom(sign, bexp, frac) ==
  IF bexp = EBmax THEN (IF frac = 0 THEN <<"InfiniteValue", 0, 0>> ELSE <<"NotANumber", 0, 0>>)
  ELSE LET sig == IF bexp = 0 THEN 0 ELSE frac + 2^FB
           e == IF bexp = 0 THEN 0 ELSE bexp - Bias - FB
           sg == IF bexp = 0 THEN 0 ELSE IF sign = 1 THEN -1 ELSE 1
       IN IF e < Cut THEN <<"ok", 0, 0>>
          ELSE IF e < 0 THEN LET r == ApproxRational(sg * sig, 2^(0 - e)) IN <<"ok", r[1], r[2]>>
          ELSE LET c == sg * sig * 2^e IN
               IF c > 2^(WB - 1) - 1 \/ c < 0 - 2^(WB - 1) THEN <<"InternalOverflow", 0, 0>> ELSE <<"ok", c, 0>>
FromOk(sign, bexp, frac) ==
  LET want == F!FromFloat(sign, bexp, Big(frac), FB, EBmax, Bias)
      got == TryFrom(sign, bexp, frac)
  IN CASE want[1] = "ok" -> got[1] = "ok" /\ Big(got[2]) = want[2] /\ got[3] = want[3]
       [] want[1] = "ok_or_overflow" -> got[1] = "InternalOverflow" \/ (got[1] = "ok" /\ Big(got[2]) = want[2] /\ got[3] = want[3])
       [] OTHER -> got[1] = want[1]

VARIABLES a, b, c
vars == <<a, b, c>>
Init == IF Dir = "into" THEN a \in (0 - CMax)..CMax /\ b \in 0..MaxFracP /\ c = 0
        ELSE a \in 0..1 /\ b \in 0..EBmax /\ c \in 0..(2^FB - 1)
Next == UNCHANGED vars
Correct == IF Dir = "into" THEN IntoOk(a, b) ELSE FromOk(a, b, c)
=======================================================================
