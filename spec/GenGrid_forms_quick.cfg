SPECIFICATION Spec
CONSTANTS Kind = "forms"
 NMax = 16
 DMax = 6
 LMax = 0
 ScaleSet = {0}
INVARIANT Emit
CHECK_DEADLOCK FALSE
