INIT Init
NEXT Next
CONSTANTS NMax = 400
 DMax = 40
INVARIANT RoundLaws
INVARIANT NativeCopy
INVARIANT UnaryLaws
INVARIANT BinaryLaws
CHECK_DEADLOCK FALSE
