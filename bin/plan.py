"""Per-property plans: which drivers (V), generators (G) and model-checking runs (MC) decide each property.
Sizes are (quick, thorough)."""
import json, os

NCH = 12   # parallel trace chunks

ASSUME_COMMON = [
    'TLC evaluates the TLA+ definitions correctly; BigInt.tla is checked against TLC native arithmetic by MC_BigInt',
    'the harness (harness/src) encodes arguments and results faithfully; it is rebuilt from /repo on every run',
    'sampled, not exhaustive, over 128-bit operand magnitudes: classes are built from the answer (ties, exact quotients, boundaries)',
    'C01-C19 are decided on the dev profile (overflow checks on); other build configurations are the subject of C20',
]


def size(c, q, t):
    return q if c.tier == 'quick' else t


def v(c, suite, q, t, chunks=NCH, **kw):
    n = size(c, q, t)
    ch = chunks if c.tier == 'quick' else 16 * max(1, min(8, n // 40000))
    traces = c.drive(suite, n, ch, **kw)
    c.validate_many(traces, 'V:' + suite)


def run(c):
    globals()['plan_' + c.pid](c)


def finish_args(c):
    return {'assumptions': ASSUME_COMMON + EXTRA_ASSUME.get(c.pid, [])}


EXTRA_ASSUME = {}


def plan_C01(c):
    v(c, 'c01', 6000, 200000)


def plan_C02(c):
    v(c, 'c02', 5000, 150000)


def plan_C03(c):
    v(c, 'c03', 4000, 120000)


def plan_C04(c):
    v(c, 'c04', 5000, 150000)


def plan_C05(c):
    v(c, 'c05', 6000, 200000)


def plan_C06(c):
    v(c, 'c06', 3000, 80000)


def plan_C07(c):
    v(c, 'c07', 3000, 100000)


def plan_C08(c):
    v(c, 'c08', 5000, 200000)
    v(c, 'c08a', 2000, 60000)


def plan_C09(c):
    v(c, 'c09', 5000, 150000)


def plan_C10(c):
    v(c, 'c10', 6000, 200000)


def plan_C11(c):
    v(c, 'c11', 4000, 120000)


def plan_C12(c):
    v(c, 'c12', 2500, 80000)


def plan_C13(c):
    v(c, 'c13', 3000, 100000)


def plan_C14(c):
    v(c, 'c14', 6000, 200000)


def plan_C15(c):
    v(c, 'c15', 6000, 200000)


def plan_C16(c):
    v(c, 'c16', 4000, 120000)


def plan_C17(c):
    v(c, 'c17', 3000, 100000)


def plan_C19(c):
    v(c, 'threads:3:0', 6000, 60000, chunks=8)
