---------------------------- MODULE MC_Modes ----------------------------
(* C19: the default rounding mode is per thread and starts as HalfEven.      *)
(* The machine: threads are spawned, set their own default, read it back and *)
(* perform rounding operations (a probe whose results distinguish all eight  *)
(* modes).  TLC explores every interleaving up to MaxDepth; the invariant    *)
(* Isolation says every observation is explained by the *observing thread's  *)
(* own* history.  The history variable is emitted as one schedule per        *)
(* behaviour and replayed with real threads (fpv sched).                     *)
(* Variant: "ok" the design; negative controls "global" (one mode shared by  *)
(* all threads) and "inherit" (a child starts with its parent's mode) must   *)
(* violate Isolation.                                                        *)
EXTENDS Integers, Sequences, FiniteSets, TLC, Json
CONSTANTS NThreads, ModesUsed, MaxDepth, Variant, EmitSchedules
ThreadSeq == [i \in 1..NThreads |-> "t" \o ToString(i)]
Threads == {ThreadSeq[i] : i \in 1..Len(ThreadSeq)}
VARIABLES alive, mode, hist, gmode
vars == <<alive, mode, hist, gmode>>
Main == "t1"

\* the probe executed by the replayer (harness/src/main.rs Cmd::Round), as <<a,b,c,d,e,f,g>>:
\* round(2.5,0) round(-2.5,0) div_rounded(1,3,0) div_rounded(-1,3,0) mul_rounded(3.5,1.0,0) (5e-10*5e-9 at 18 digits) format!("{:.0}", 6.5) round(2.7,0) ((10^21+1)e-18 * 0.5 at 18 digits, minus 5*10^20: the 256-bit product path) (1.5e-18 / 2 with the / operator) (10^21 / 8 exact on the 256-bit division path, minus 125*10^18: 0 in every mode)
Probe(m) ==
  CASE m = "Round05Up"     -> <<2, -2, 1, -1, 3, 2, 6, 2, 1, 1, 0, 1, -1, -1>>
    [] m = "RoundCeiling"  -> <<3, -2, 1, 0, 4, 3, 7, 3, 1, 2, 0, 1, 0, 0>>
    [] m = "RoundDown"     -> <<2, -2, 0, 0, 3, 2, 6, 2, 0, 1, 0, 0, 0, 0>>
    [] m = "RoundFloor"    -> <<2, -3, 0, -1, 3, 2, 6, 2, 0, 1, 0, 0, -1, -1>>
    [] m = "RoundHalfDown" -> <<2, -2, 0, 0, 3, 2, 6, 3, 0, 1, 0, 0, 0, 0>>
    [] m = "RoundHalfEven" -> <<2, -2, 0, 0, 4, 2, 6, 3, 0, 2, 0, 0, 0, 0>>
    [] m = "RoundHalfUp"   -> <<3, -3, 0, 0, 4, 3, 7, 3, 1, 2, 0, 0, 0, 0>>
    [] m = "RoundUp"       -> <<3, -3, 1, -1, 4, 3, 7, 3, 1, 2, 0, 1, -1, -1>>

\* the table above is not free-standing: every entry is the oracle's rounding function (FpDec!RoundQ) applied to the exact
\* rational of that probe element, scaled to the requested digit - checked once per TLC run (ASSUME)
R == INSTANCE NatInt
FD == INSTANCE FpDec WITH ZAdd <- R!IAdd, ZSub <- R!ISub, ZMul <- R!IMul, ZCmp <- R!ICmp, ZFloorDivMod <- R!IFloorDivMod, ZLit <- R!ILit,
        ZNeg <- R!INeg, ZAbs <- R!IAbs, ZSign <- R!ISign, ZIsEven <- R!IIsEven, ZMod5Is0 <- R!IMod5Is0, ZPow10 <- R!IPow10, ZPow2 <- R!IPow2,
        ZDigits <- R!IDigits, MaxFrac <- 2, CoeffBits <- 7, CoeffMax <- 127, CoeffMin <- -128, MaxDigits <- 3
ProbeDerived(m) == LET q(n, d) == FD!RoundQ(n, d, m) IN
  <<q(25, 10), q(-25, 10), q(1, 3), q(-1, 3), q(350, 100), q(25, 10), q(65, 10), q(27, 10), q(1, 2), q(3, 2), 0,
    q(4, 30), q(-5, 70), q(-4, 100)>>
ASSUME \A m \in {"Round05Up", "RoundCeiling", "RoundDown", "RoundFloor", "RoundHalfDown", "RoundHalfEven", "RoundHalfUp", "RoundUp"} :
         Probe(m) = ProbeDerived(m)

Eff(t) == IF Variant = "global" THEN gmode ELSE mode[t]
Init == alive = {Main} /\ mode = [t \in Threads |-> "RoundHalfEven"] /\ hist = <<>> /\ gmode = "RoundHalfEven"
Spawn(p, t) == /\ p \in alive /\ t \notin alive /\ alive' = alive \cup {t}
               /\ mode' = [mode EXCEPT ![t] = IF Variant = "inherit" THEN mode[p] ELSE "RoundHalfEven"]
               /\ UNCHANGED gmode
               /\ hist' = Append(hist, [a |-> "spawn", t |-> p, c |-> t])
SetDefault(t, m) == /\ t \in alive /\ mode' = [mode EXCEPT ![t] = m] /\ gmode' = m /\ UNCHANGED alive
                    /\ hist' = Append(hist, [a |-> "set", t |-> t, m |-> m])
GetDefault(t) == /\ t \in alive /\ UNCHANGED <<alive, mode, gmode>>
                 /\ hist' = Append(hist, [a |-> "get", t |-> t, m |-> Eff(t)])
Round(t) == /\ t \in alive /\ UNCHANGED <<alive, mode, gmode>>
            /\ hist' = Append(hist, [a |-> "round", t |-> t, r |-> Probe(Eff(t))])
\* threads are spawned in name order (symmetry reduction: thread names are interchangeable)
NextThread == ThreadSeq[Cardinality(alive) + 1]
Next == /\ Len(hist) < MaxDepth
        /\ \/ \E p \in alive : alive # Threads /\ Spawn(p, NextThread)
           \/ \E t \in alive, m \in ModesUsed : SetDefault(t, m)      \* including redundant sets
           \/ \E t \in alive : GetDefault(t)
           \/ \E t \in alive : Round(t)
Spec == Init /\ [][Next]_vars

\* the mode a thread must observe according to its own history only
OwnMode(i, t) ==
  LET sets == {j \in 1..(i-1) : hist[j].a = "set" /\ hist[j].t = t}
  IN IF sets = {} THEN "RoundHalfEven" ELSE hist[CHOOSE j \in sets : \A k \in sets : k <= j].m
Isolation == \A i \in 1..Len(hist) :
   /\ hist[i].a = "round" => hist[i].r = Probe(OwnMode(i, hist[i].t))
   /\ hist[i].a = "get" => hist[i].m = OwnMode(i, hist[i].t)
\* the action property of the statement: a thread's mode changes only by that thread's own set_default (or its creation)
ModeIsolation == [][\A t \in Threads : mode'[t] # mode[t] =>
                      (hist' = Append(hist, [a |-> "set", t |-> t, m |-> mode'[t]]) \/ t \notin alive)]_vars
\* complete behaviours (depth reached) that contain at least one observation are emitted for replay
Interesting == \E i \in 1..Len(hist) : hist[i].a \in {"round", "get"}
Emit == ~EmitSchedules \/ Len(hist) < MaxDepth \/ ~Interesting \/ PrintT("SCHED " \o ToJson(hist))
==========================================================================
