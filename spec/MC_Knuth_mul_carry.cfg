INIT Init
NEXT Next
CONSTANTS W = 3
 Variant = "mul_carry"
INVARIANT Correct
INVARIANT MulCorrect
CHECK_DEADLOCK FALSE
