---------------------------- MODULE FpDev ----------------------------
(* Named deviation operators: for each OPEN known finding the transcription *)
(* of what the code does at that call site instead of what the property     *)
(* demands.  Explains(k, e, md) is TRUE only for exactly that misbehaviour  *)
(* (site condition on the inputs AND the deviating outcome), so a different *)
(* wrong result of the same operation is still a VIOLATION.                 *)
(* Findings that were repaired by a "fix:" commit have no operator here.    *)
EXTENDS BigInt
CONSTANTS MaxFrac, CoeffBits
T == INSTANCE FpText WITH MaxFrac <- MaxFrac, CoeffBits <- CoeffBits

(* F7 (C06, C18): fpdec-core/src/parser.rs `if n_exp_digits > 2` - an exponent  *)
(* written with more than two digits ("1e001", "2E+000") is rejected although   *)
(* the literal is in the grammar and its value is representable.                *)
ExpDigits(bs) == LET sh == T!Shape(bs) IN IF sh.hasE THEN sh.i5 - sh.i4 ELSE 0
F7(e) == /\ e.ev = "parse" /\ ~(e.form = "from_str_radix" /\ e.radix # 10)
         /\ T!WellFormed(e.bs) /\ ExpDigits(e.bs) > 2
         /\ e.out.k = "err" /\ e.out.e = "FracDigitLimitExceeded"
F7lit(e) == /\ e.ev = "lit" /\ T!WellFormed(e.bs) /\ ExpDigits(e.bs) > 2
            /\ e.rt.k = "err" /\ e.mac.k = "cerr"

(* F9 (C06, C18): fpdec-core/src/parser.rs `n_digits > 39` - leading zeros of the *)
(* fraction are counted as significant digits, so a literal with more than 39     *)
(* digit places after the leading integer zeros is rejected even when its value   *)
(* is representable (".0000000000000000000000000000000000000001e22").             *)
RECURSIVE SkipZ(_,_,_)
SkipZ(bs, i, j) == IF i < j /\ bs[i] = 48 THEN SkipZ(bs, i+1, j) ELSE i
CountedDigits(bs) == LET sh == T!Shape(bs) IN (sh.i2 - SkipZ(bs, sh.i1, sh.i2)) + sh.fl
F9(e) == /\ e.ev = "parse" /\ ~(e.form = "from_str_radix" /\ e.radix # 10)
         /\ T!WellFormed(e.bs) /\ CountedDigits(e.bs) > 39 /\ T!ParseVal(e.bs)[1] = "ok"
         /\ e.out.k = "err" /\ e.out.e = "InternalOverflow"

Explains(k, e, md) ==
  CASE k = "F7" -> F7(e) \/ F7lit(e)
    [] k = "F9" -> F9(e)
    [] OTHER -> FALSE
=======================================================================
