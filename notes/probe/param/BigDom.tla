---- MODULE BigDom ----
EXTENDS BigInt
BSign(a) == a.s
RECURSIVE BPow2(_)
BPow2(k) == IF k = 0 THEN BLit(1) ELSE IF k >= 13 THEN BMul(BLit(8192), BPow2(k-13)) ELSE BMul(BLit(2), BPow2(k-1))
====
