---------------------------- MODULE AP_FloorFix ----------------------------
(* C16, unbounded in the dividend: the sign fix-up that i256_div_mod_floor and *)
(* i128_shifted_div_mod_floor apply to the unsigned quotient / remainder of    *)
(* |n| by m (as repaired by the fix commit of finding F1) yields the floor     *)
(* quotient and a remainder in 0..m-1 for EVERY integer n (symbolic, Apalache) *)
(* and every divisor of MSet.  MC_Knuth checks the same function, together     *)
(* with the multi-word division below it, exhaustively at 6 and 8 bits.        *)
(* Run: apalache-mc check --length=0 --inv=FloorOk AP_FloorFix.tla             *)
EXTENDS Integers

VARIABLES
  \* @type: Int;
  n,
  \* @type: Int;
  m

MSet == {1, 2, 3, 7, 10, 16, 100, 1000, 4096, 1000000, 999999937}

\* @type: (Int) => Int;
Abs(z) == IF z < 0 THEN 0 - z ELSE z

\* @type: () => <<Int, Int>>;
Fixed == LET q0 == Abs(n) \div m
             r0 == Abs(n) % m
         IN IF n >= 0 THEN <<q0, r0>>
            ELSE IF r0 = 0 THEN <<0 - q0, 0>> ELSE <<0 - q0 - 1, m - r0>>

Init == n \in Int /\ m \in MSet
Next == UNCHANGED <<n, m>>
FloorOk == LET q == Fixed[1]
               r == Fixed[2]
           IN n = q * m + r /\ 0 <= r /\ r < m /\ q = n \div m
=======================================================================
