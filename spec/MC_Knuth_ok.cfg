INIT Init
NEXT Next
CONSTANTS W = 3
 Variant = "ok"
INVARIANT Correct
INVARIANT MulCorrect
CHECK_DEADLOCK FALSE
