// JSON encoding of numbers for the TLA+ trace specification:
// integers are sign + little-endian base-10^4 limbs (TLC integers are 32 bit).
use fpdec::Decimal;
use serde_json::{json, Value};

pub fn limbs_u128(mut a: u128) -> Vec<u32> {
    let mut v = vec![];
    while a > 0 {
        v.push((a % 10000) as u32);
        a /= 10000;
    }
    v
}

pub fn num(c: i128) -> Value {
    let s = if c > 0 { 1 } else if c < 0 { -1 } else { 0 };
    json!({"s": s, "m": limbs_u128(c.unsigned_abs())})
}

pub fn unum(c: u128) -> Value {
    json!({"s": if c > 0 { 1 } else { 0 }, "m": limbs_u128(c)})
}

pub fn dec_raw(c: i128, f: u8) -> Value {
    let s = if c > 0 { 1 } else if c < 0 { -1 } else { 0 };
    json!({"s": s, "m": limbs_u128(c.unsigned_abs()), "f": f})
}

pub fn dec(d: Decimal) -> Value {
    dec_raw(d.coefficient(), d.n_frac_digits())
}

pub fn parse_limbs(v: &Value) -> u128 {
    let mut a: u128 = 0;
    if let Some(arr) = v.as_array() {
        for l in arr.iter().rev() {
            a = a * 10000 + l.as_u64().unwrap() as u128;
        }
    }
    a
}

pub fn parse_num(v: &Value) -> i128 {
    let s = v["s"].as_i64().unwrap_or(0);
    let m = parse_limbs(&v["m"]);
    if s < 0 {
        (m as i128).wrapping_neg()
    } else {
        m as i128
    }
}

pub fn parse_dec(v: &Value) -> Decimal {
    Decimal::new_raw(parse_num(v), v["f"].as_u64().unwrap_or(0) as u8)
}

pub fn codes(s: &str) -> Vec<u32> {
    s.chars().map(|c| c as u32).collect()
}

pub fn bytes(s: &str) -> Vec<u32> {
    s.bytes().map(|c| c as u32).collect()
}

/// outcome of an arithmetic call
#[derive(Clone, Debug, PartialEq)]
pub enum Out {
    Ret(i128, u8),
    Panic,
    None,
}

impl Out {
    pub fn json(&self) -> Value {
        match self {
            Out::Ret(c, f) => {
                let mut v = dec_raw(*c, *f);
                v["k"] = json!("ret");
                v
            }
            Out::Panic => json!({"k": "panic"}),
            Out::None => json!({"k": "none"}),
        }
    }
}

pub fn od(d: Decimal) -> Out {
    Out::Ret(d.coefficient(), d.n_frac_digits())
}

pub fn oo(d: Option<Decimal>) -> Out {
    match d {
        Some(d) => od(d),
        Option::None => Out::None,
    }
}

/// splitmix64 / xorshift generator (all randomness is seeded from VERIF_SEED)
pub struct Rng(pub u64);

impl Rng {
    pub fn new(seed: u64) -> Self {
        let mut r = Rng(seed ^ 0x9E3779B97F4A7C15);
        r.next();
        r
    }
    pub fn next(&mut self) -> u64 {
        self.0 = self.0.wrapping_add(0x9E3779B97F4A7C15);
        let mut z = self.0;
        z = (z ^ (z >> 30)).wrapping_mul(0xBF58476D1CE4E5B9);
        z = (z ^ (z >> 27)).wrapping_mul(0x94D049BB133111EB);
        z ^ (z >> 31)
    }
    pub fn below(&mut self, n: u64) -> u64 {
        self.next() % n
    }
    pub fn range(&mut self, lo: i64, hi: i64) -> i64 {
        lo + (self.next() % ((hi - lo + 1) as u64)) as i64
    }
    pub fn u128(&mut self) -> u128 {
        ((self.next() as u128) << 64) | self.next() as u128
    }
    pub fn bool(&mut self) -> bool {
        self.next() & 1 == 1
    }
    pub fn pick<'a, T>(&mut self, xs: &'a [T]) -> &'a T {
        &xs[self.below(xs.len() as u64) as usize]
    }
}
