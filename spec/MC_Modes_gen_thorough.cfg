SPECIFICATION Spec
CONSTANTS NThreads = 3
 ModesUsed = {"RoundHalfEven", "RoundHalfUp", "RoundDown"}
 MaxDepth = 6
 Variant = "ok"
 EmitSchedules = TRUE
INVARIANT Isolation
INVARIANT Emit
CHECK_DEADLOCK FALSE
