INIT Init
NEXT Next
CONSTANTS WB = 16
 FB = 5
 CMax = 4000
 MaxFracP = 2
 Variant = "ok"
 Dir = "from"
INVARIANT Correct
CHECK_DEADLOCK FALSE
