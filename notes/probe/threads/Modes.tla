---- MODULE Modes ----
\* Spike for C19: per-thread default rounding mode; schedules emitted for replay
EXTENDS Integers, Sequences, FiniteSets, TLC, Json
CONSTANTS Threads, ModesUsed, MaxDepth, GlobalBug
VARIABLES alive, mode, hist, gmode
vars == <<alive, mode, hist, gmode>>
Main == CHOOSE t \in Threads : TRUE
\* rounding 2.5 -> integer distinguishes HalfEven(2) HalfUp(3) Down(2) Up(3) ; 3.5: HalfEven 4, Down 3 -> use pair
RoundTie(m) == CASE m = "HalfEven" -> <<2, 4>> [] m = "HalfUp" -> <<3, 4>> [] m = "Down" -> <<2, 3>>
Eff(t) == IF GlobalBug THEN gmode ELSE mode[t]
Init == alive = {Main} /\ mode = [t \in Threads |-> "HalfEven"] /\ hist = <<>> /\ gmode = "HalfEven"
Spawn(p, t) == /\ p \in alive /\ t \notin alive /\ alive' = alive \cup {t}
               /\ mode' = [mode EXCEPT ![t] = "HalfEven"] /\ UNCHANGED gmode
               /\ hist' = Append(hist, [a |-> "spawn", t |-> p, c |-> t])
SetDefault(t, m) == /\ t \in alive /\ mode' = [mode EXCEPT ![t] = m] /\ gmode' = m /\ UNCHANGED alive
                    /\ hist' = Append(hist, [a |-> "set", t |-> t, m |-> m])
Round(t) == /\ t \in alive /\ UNCHANGED <<alive, mode, gmode>>
            /\ hist' = Append(hist, [a |-> "round", t |-> t, r |-> RoundTie(Eff(t))])
Next == /\ Len(hist) < MaxDepth
        /\ \/ \E p, t \in Threads : Spawn(p, t)
           \/ \E t \in Threads, m \in ModesUsed : m # mode[t] /\ SetDefault(t, m)
           \/ \E t \in Threads : Round(t)
Spec == Init /\ [][Next]_vars
\* C19: every recorded rounding result is the one of the calling thread's own mode
Isolation == \A i \in 1..Len(hist) : hist[i].a = "round" =>
   LET t == hist[i].t
       sets == {j \in 1..(i-1) : hist[j].a = "set" /\ hist[j].t = t}
       last == IF sets = {} THEN "HalfEven" ELSE hist[CHOOSE j \in sets : \A k \in sets : k <= j].m
   IN hist[i].r = RoundTie(last)
Emit == Len(hist) < MaxDepth \/ PrintT("REPLAY " \o ToJson(hist))
====
