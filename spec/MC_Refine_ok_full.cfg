INIT Init
NEXT Next
CONSTANT CMax = 127
CONSTANT Variant = "ok"
INVARIANT KernelRefines
INVARIANT DivRoundedRefines
INVARIANT AddSubRefines
INVARIANT CmpRefines
INVARIANT RemRefines
INVARIANT MulRefines
INVARIANT RoundRefines
INVARIANT DivRefines
INVARIANT QuantizeRefines
INVARIANT RatioRefines
INVARIANT UnaryRefines
INVARIANT IntoIntRefines
INVARIANT Tight
CHECK_DEADLOCK FALSE
