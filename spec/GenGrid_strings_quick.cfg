SPECIFICATION Spec
CONSTANTS Kind = "strings"
 NMax = 0
 DMax = 0
 LMax = 4
 ScaleSet = {0}
INVARIANT Emit
CHECK_DEADLOCK FALSE
