from fractions import Fraction
from collections import Counter, defaultdict
def val(o):
    if o in ('panic','None'): return o
    if o in ('true','false'): return o
    s=o.strip()
    if '.' in s:
        ip,fp=s.split('.'); return (Fraction(int(ip+fp) if not ip.startswith('-') else int(ip+fp), 10**len(fp)), len(fp))
    return (Fraction(int(s)), 0)
dis=Counter(); ex={}; tuples=0; comps=0
cur=None; ref={}; rows=[]
def flush():
    global comps
    if cur is None: return
    for (k,o) in rows:
        op,t,pos,rn=k.split('/')
        if t=='ref': continue
        base = op
        rkey = f"{base}/ref/{pos if pos!='x' else 'x'}/{rn}"
        if t.startswith('assign_'): rkey=f"{base}/ref/di/vv"
        r = ref.get(rkey)
        if r is None: continue
        comps+=1
        a, b = val(o), val(r)
        fail_a = a in ('panic','None'); fail_b = b in ('panic','None')
        ok = True
        if fail_a != fail_b: ok = False
        elif not fail_a:
            if isinstance(a, tuple):
                ok = a[0]==b[0] and (a[1]==b[1] if base in ('add','sub','cadd','csub') else True)
            else: ok = a==b
        if not ok:
            # the stated exception: multiplication where only DD shortcuts one
            key=(base, t if not t.startswith('assign_') else 'assign', 'intfail' if fail_a and not fail_b else ('reffail' if fail_b and not fail_a else 'value'))
            dis[key]+=1; ex.setdefault(key,(cur,k,o,r))
for line in open('forms.txt'):
    if line.startswith('T '):
        flush(); cur=line.strip(); rows=[]; ref={}; tuples+=1; continue
    k,o=line.rstrip('\n').split(' ',1)
    rows.append((k,o))
    if '/ref/' in k: ref[k]=o
flush()
print('tuples',tuples,'comparisons',comps)
for k,v in sorted(dis.items()): print(k,v,ex[k])
