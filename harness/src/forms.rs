// C17: one `forms` event carries the outcome of every operand form of one operation on one
// operand tuple: by value / by reference in both positions, compound assignment (by value and
// by reference) where it exists, and the reference outcome with Decimal::from(i) in the
// integer's position.
use crate::enc::*;
use crate::exec::*;
use fpdec::*;
use serde_json::{json, Value};
use std::panic::{catch_unwind, AssertUnwindSafe};

fn cmp_out(op: &str, xt: &str, yt: &str, e: &Value) -> Out {
    let r = catch_unwind(AssertUnwindSafe(|| match (xt, yt) {
        ("dec", "dec") => {
            let (x, y) = (parse_dec(&e["x"]), parse_dec(&e["y"]));
            if op == "eq" { (x == y) as i128 } else { (x < y) as i128 }
        }
        ("dec", _) => {
            let (x, v) = (parse_dec(&e["x"]), parse_num(&e["y"]));
            crate::with_int!(yt, v, |i| if op == "eq" { (x == i) as i128 } else { (x < i) as i128 })
        }
        (_, _) => {
            let (v, y) = (parse_num(&e["x"]), parse_dec(&e["y"]));
            crate::with_int!(xt, v, |i| if op == "eq" { (i == y) as i128 } else { (i < y) as i128 })
        }
    }));
    match r {
        Ok(v) => Out::Ret(v, 0),
        Err(_) => Out::Panic,
    }
}

pub fn forms(e: &mut Value) {
    let op = e["op"].as_str().unwrap().to_string();
    let xt = e["xt"].as_str().unwrap().to_string();
    let yt = e["yt"].as_str().unwrap().to_string();
    let n = e["n"].as_i64().unwrap_or(0) as u8;
    let xd = if xt == "dec" { parse_dec(&e["x"]) } else { Decimal::from(parse_num(&e["x"])) };
    let yd = if yt == "dec" { parse_dec(&e["y"]) } else { Decimal::from(parse_num(&e["y"])) };
    let mut outs: Vec<Value> = vec![];
    let mut names: Vec<String> = vec![];
    if op == "eq" || op == "lt" {
        outs.push(cmp_out(&op, &xt, &yt, e).json());
        names.push("vv".into());
        let mut r = e.clone();
        r["x"] = dec(xd);
        r["y"] = dec(yd);
        e["ref"] = cmp_out(&op, "dec", "dec", &r).json();
    } else {
        for form in 0..4u8 {
            let o = match (xt.as_str(), yt.as_str()) {
                ("dec", "dec") => bin_dd(&op, xd, yd, n, form),
                ("dec", _) => bin_di(&op, xd, &yt, parse_num(&e["y"]), n, form),
                (_, "dec") => bin_id(&op, &xt, parse_num(&e["x"]), yd, n, form),
                _ => bin_ii(&op, &xt, parse_num(&e["x"]), parse_num(&e["y"]), n, form),
            };
            outs.push(o.json());
            names.push(["vv", "rv", "vr", "rr"][form as usize].into());
        }
        if xt == "dec" && ["add", "sub", "mul", "div", "rem"].contains(&op.as_str()) {
            for byref in [false, true] {
                let mut acc = xd;
                let o = if yt == "dec" {
                    assign_d(&op, &mut acc, yd, byref)
                } else {
                    assign_i(&op, &mut acc, &yt, parse_num(&e["y"]), byref)
                };
                outs.push(o.json());
                names.push(if byref { "assign_ref".into() } else { "assign".into() });
            }
        }
        e["ref"] = bin_dd(&op, xd, yd, n, 0).json();
    }
    e["outs"] = json!(outs);
    e["names"] = json!(names);
}
