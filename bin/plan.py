"""Per-property plans: which drivers (V), generators (G) and model-checking runs (MC) decide each property.
Sizes are (quick, thorough)."""
import json, os

NCH = 12   # parallel trace chunks

ASSUME_COMMON = [
    'TLC evaluates the TLA+ definitions correctly; BigInt.tla is checked against TLC native arithmetic by MC_BigInt',
    'the harness (harness/src) encodes arguments and results faithfully; it is rebuilt from /repo on every run',
    'sampled, not exhaustive, over 128-bit operand magnitudes: classes are built from the answer (ties, exact quotients, boundaries)',
    'C01-C19 are decided on the dev profile (overflow checks on); other build configurations are the subject of C20',
]


def size(c, q, t):
    return q if c.tier == 'quick' else t


def v(c, suite, q, t, chunks=NCH, **kw):
    n = size(c, q, t)
    ch = chunks if c.tier == 'quick' else 16 * max(1, min(8, n // 40000))
    traces = c.drive(suite, n, ch, **kw)
    c.validate_many(traces, 'V:' + suite)


def run(c):
    globals()['plan_' + c.pid](c)


def finish_args(c):
    return {'assumptions': ASSUME_COMMON + EXTRA_ASSUME.get(c.pid, [])}


EXTRA_ASSUME = {}


def plan_C01(c):
    v(c, 'c01', 6000, 200000)


def plan_C02(c):
    v(c, 'c02', 5000, 150000)


def plan_C03(c):
    v(c, 'c03', 4000, 120000)


def plan_C04(c):
    v(c, 'c04', 5000, 150000)


def plan_C05(c):
    v(c, 'c05', 6000, 200000)


def plan_C06(c):
    v(c, 'c06', 3000, 80000)


def plan_C07(c):
    v(c, 'c07', 3000, 100000)


def plan_C08(c):
    v(c, 'c08', 5000, 200000)
    v(c, 'c08a', 2000, 60000)


def plan_C09(c):
    v(c, 'c09', 5000, 150000)


def plan_C10(c):
    v(c, 'c10', 6000, 200000)


def plan_C11(c):
    v(c, 'c11', 4000, 120000)


def plan_C12(c):
    v(c, 'c12', 2500, 80000)


def plan_C13(c):
    v(c, 'c13', 3000, 100000)


def plan_C14(c):
    v(c, 'c14', 6000, 200000)


def plan_C15(c):
    v(c, 'c15', 6000, 200000)


def plan_C16(c):
    v(c, 'c16', 4000, 120000)


def plan_C17(c):
    v(c, 'c17', 3000, 100000)


def plan_C19(c):
    # MC: all interleavings of the mode machine; the negative controls must be rejected
    c.mc('MC_Modes', cfg='MC_Modes_ok' if c.tier == 'quick' else 'MC_Modes_ok_thorough')
    c.mc('MC_Modes', cfg='MC_Modes_global', expect='violation')
    c.mc('MC_Modes', cfg='MC_Modes_inherit', expect='violation')
    # G: every complete schedule of the model replayed with one real thread per model thread, in lock-step
    for cfg in (['MC_Modes_gen_quick', 'MC_Modes_gen_allmodes'] if c.tier == 'quick' else ['MC_Modes_gen_thorough', 'MC_Modes_gen_allmodes']):
        scheds = c.generate('MC_Modes', prefix='SCHED', cfg=cfg)
        replay_schedules(c, scheds, cfg)
    # V: free-running threads, internal mode reads (hook) gate
    v(c, 'threads:3:0', 6000, 60000, chunks=8)
    if c.tier != 'quick':
        v(c, 'threads:15:0', 6000, 200000, chunks=8)


def replay_schedules(c, scheds, label):
    import concurrent.futures as cf
    b = c.binary()
    nproc = 8
    per = (len(scheds) + nproc - 1) // nproc
    files = []
    for i in range(nproc):
        part = scheds[i * per:(i + 1) * per]
        if not part:
            continue
        fn = os.path.join(c.work, 'S_%s_%d.ndjson' % (label, i))
        with open(fn, 'w') as f:
            f.write('\n'.join(part) + '\n')
        files.append(fn)

    def one(fn):
        p = run_cmd([b, 'sched', fn], timeout=3600)
        if p.returncode != 0:
            raise ToolError('schedule replay failed: ' + p.stderr[-500:])
        return [json.loads(l) for l in p.stdout.splitlines() if l.strip()]
    with cf.ThreadPoolExecutor(max_workers=nproc) as ex:
        outs = list(ex.map(one, files))
    n = steps = 0
    for o in outs:
        for rec in o:
            if 'summary' in rec:
                n += rec['summary']['schedules']
                steps += rec['summary']['steps']
            else:
                c.violations.append(('G:%s: the real threads deviate from the schedule generated from the specification' % label, [rec]))
    c.cov.setdefault('schedules_replayed', 0)
    c.cov['schedules_replayed'] += n
    c.cov.setdefault('schedule_steps', 0)
    c.cov['schedule_steps'] += steps
    c.cov['evaluations'] += steps
    c.cov['traces_validated_against_impl'] += n
    if scheds and len(c.cov['samples']) < 8:
        c.cov['samples'].append({'schedule': json.loads(scheds[len(scheds) // 2])})
    for s in scheds:
        c.keys.add(s)


def plan_C20(c):
    """the same seeded driver in several build configurations: every build's trace must be accepted by the same
    Trace.tla, and `pair` events require identical observables build by build"""
    n = size(c, 5200, 60000)
    chunks = 6 if c.tier == 'quick' else 16
    builds = [('dev', ('rkyv',)), ('release', ('rkyv',))]
    if c.tier != 'quick':
        builds += [('relchk', ('rkyv',)), ('devnochk', ('rkyv',)),
                   ('dev', ('packed', 'rkyv')), ('release', ('packed', 'rkyv')), ('relchk', ('packed', 'rkyv')), ('devnochk', ('packed', 'rkyv'))]
    all_traces = {}
    for prof, feats in builds:
        label = prof + ('_packed' if 'packed' in feats else '')
        traces = c.drive('c20', n, chunks, profile=prof, features=feats, label=label)
        all_traces[label] = traces
        c.validate_many(traces, 'V:c20[%s]' % label)
    # pairwise: identical observables where Allowed is not a singleton (and everywhere else)
    base = all_traces['dev']
    pair_files = []
    for label, traces in all_traces.items():
        if label == 'dev':
            continue
        for i, (ta, tb) in enumerate(zip(base, traces)):
            la, lb = open(ta).read().splitlines(), open(tb).read().splitlines()
            out = os.path.join(c.work, 'P_%s_%d.ndjson' % (label, i))
            with open(out, 'w') as f:
                for a, b in zip(la, lb):
                    ja = json.loads(a)
                    if ja['ev'] in ('set', 'get', 'accset', 'spawn'):
                        continue
                    f.write(json.dumps({'ev': 'pair', 't': 1, 'builds': ['dev', label], 'call': ja, 'outs': [a, b]}) + '\n')
                if len(la) != len(lb):
                    f.write(json.dumps({'ev': 'pair', 't': 1, 'builds': ['dev', label], 'call': {'note': 'traces differ in length'}, 'outs': [str(len(la)), str(len(lb))]}) + '\n')
            pair_files.append(out)
    c.validate_many(pair_files, 'pair')
    c.cov['builds'] = sorted(all_traces)


EXTRA_ASSUME['C20'] = ['build configurations are cargo profiles of the harness workspace (dev, release, relchk = release+overflow-checks+debug-assertions, '
                       'devnochk = dev without them) x feature packed; the fpdec crates are compiled with the same profile as path dependencies']


# ---------------------------------------------------------------- C18: Dec!(lit) programs
import re, subprocess, shutil
LIT_RE = re.compile(r'^[+-]?[0-9]+(\.[0-9]+([eE][+-]?[0-9]+)?|\.|[eE][+-]?[0-9]+)?$')   # one Rust literal token, optionally signed, no suffix


def compile_lits(c, lits):
    """returns {index: (coeff, scale)} for the literals that compile; the others fail to compile"""
    run = run_cmd
    d = os.path.join(HARN, 'lits')
    shutil.copy('/repo/Cargo.lock', os.path.join(d, 'Cargo.lock'))
    os.makedirs(os.path.join(d, 'src'), exist_ok=True)
    alive = list(range(len(lits)))
    failed = set()
    for attempt in range(4):
        head = ['use fpdec::{Dec, Decimal};', 'fn main() {', '    let v: Vec<(usize, Decimal)> = vec![']
        with open(os.path.join(d, 'src', 'main.rs'), 'w') as f:
            f.write('\n'.join(head) + '\n')
            for i in alive:
                f.write('(%d, Dec!(%s)),\n' % (i, lits[i]))
            f.write('    ];\n    for (i, d) in v { println!("{} {} {}", i, d.coefficient(), d.n_frac_digits()); }\n}\n')
        p = run(['cargo', 'build', '--offline', '--quiet', '--message-format=json'], cwd=d, timeout=1200)
        if p.returncode == 0:
            break
        bad = set()
        for line in p.stdout.splitlines():
            try:
                m = json.loads(line)
            except Exception:
                continue
            if m.get('reason') != 'compiler-message' or m['message'].get('level') != 'error':
                continue
            for sp in m['message'].get('spans', []):
                if sp.get('file_name', '').endswith('main.rs') and sp['line_start'] > len(head):
                    k = sp['line_start'] - len(head) - 1
                    if 0 <= k < len(alive):
                        bad.add(alive[k])
        if not bad:
            raise ToolError('literal program does not compile and no literal is blamed:\n' + p.stderr[-2000:])
        failed |= bad
        alive = [i for i in alive if i not in bad]
    else:
        raise ToolError('literal program still fails to compile after removing blamed literals')
    out = run([os.path.join(HARN, 'target', 'lits', 'debug', 'fpv-lits')], timeout=300)
    if out.returncode != 0:
        raise ToolError('literal program crashed: ' + out.stderr[-500:])
    res = {}
    for line in out.stdout.splitlines():
        i, co, sc = line.split()
        res[int(i)] = (int(co), int(sc))
    return res


def limbs(a):
    v = []
    while a > 0:
        v.append(a % 10000)
        a //= 10000
    return v


def plan_C18(c):
    pay = c.generate('GenLits', prefix='LIT', cfg='GenLits_' + c.tier)
    lits = sorted(set(l for l in pay if LIT_RE.match(l)))
    c.cov['literals_generated'] = len(pay)
    c.cov['literals_valid_tokens'] = len(lits)
    batch = 6000
    events = []
    for b0 in range(0, len(lits), batch):
        part = lits[b0:b0 + batch]
        mac = compile_lits(c, part)
        # the same text through from_str on the real crate
        calls = [{'ev': 'parse', 't': 1, 'form': 'from_str', 'radix': 10, 'bs': list(l.encode())} for l in part]
        traces = c.exec_vectors(calls, 'lits%d' % b0, chunks=1)
        rts = [json.loads(x) for x in open(traces[0]) if json.loads(x)['ev'] == 'parse']
        assert len(rts) == len(part)
        for i, l in enumerate(part):
            if i in mac:
                co, sc = mac[i]
                m = {'k': 'ok', 's': (co > 0) - (co < 0), 'm': limbs(abs(co)), 'f': sc}
            else:
                m = {'k': 'cerr'}
            events.append({'ev': 'lit', 't': 1, 'bs': list(l.encode()), 'text': l, 'mac': m, 'rt': rts[i]['out']})
    nch = 8
    files = []
    per = (len(events) + nch - 1) // nch
    for i in range(nch):
        fn = os.path.join(c.work, 'L_%d.ndjson' % i)
        with open(fn, 'w') as f:
            for e in events[i * per:(i + 1) * per]:
                f.write(json.dumps(e) + '\n')
        files.append(fn)
    c.validate_many(files, 'lit')
    c.cov['macro_accepted'] = sum(1 for e in events if e['mac']['k'] == 'ok')
    c.cov['macro_rejected'] = sum(1 for e in events if e['mac']['k'] != 'ok')


EXTRA_ASSUME['C18'] = ['literals are restricted to single Rust literal tokens (optionally signed, no suffix, no underscores): the quantifier of C18; '
                       'a literal "fails to compile" iff rustc reports an error whose span is the line of that Dec!(..) invocation']
