---- MODULE BigInt ----
\* signed big integers: [s |-> -1|0|1, m |-> BigNat magnitude]
EXTENDS BigNat
Z0 == [s |-> 0, m |-> <<>>]
Mk(s, m) == IF m = <<>> THEN Z0 ELSE [s |-> s, m |-> m]
RECURSIVE NatLimbs(_)
NatLimbs(n) == IF n = 0 THEN <<>> ELSE <<n % B>> \o NatLimbs(n \div B)
BLit(n) == IF n = 0 THEN Z0 ELSE IF n > 0 THEN [s |-> 1, m |-> NatLimbs(n)] ELSE [s |-> -1, m |-> NatLimbs(-n)]
BNeg(a) == [s |-> -a.s, m |-> a.m]
BAbs(a) == [s |-> IF a.s = 0 THEN 0 ELSE 1, m |-> a.m]
BCmp(a, b) == IF a.s # b.s THEN (IF a.s > b.s THEN 1 ELSE -1)
              ELSE IF a.s = 0 THEN 0 ELSE a.s * Cmp(a.m, b.m)
BAdd(a, b) == IF a.s = 0 THEN b ELSE IF b.s = 0 THEN a
              ELSE IF a.s = b.s THEN [s |-> a.s, m |-> Add(a.m, b.m)]
              ELSE LET c == Cmp(a.m, b.m) IN
                   IF c = 0 THEN Z0 ELSE IF c > 0 THEN [s |-> a.s, m |-> Sub(a.m, b.m)]
                   ELSE [s |-> b.s, m |-> Sub(b.m, a.m)]
BSub(a, b) == BAdd(a, BNeg(b))
BMul(a, b) == IF a.s = 0 \/ b.s = 0 THEN Z0 ELSE [s |-> a.s * b.s, m |-> Mul(a.m, b.m)]
BPow10(k) == [s |-> 1, m |-> Pow10(k)]
\* floor division by a positive divisor: <<q, r>> with 0 <= r < d
BFloorDivMod(n, d) ==
  IF n.s = 0 THEN <<Z0, Z0>> ELSE
  LET qr == DivMod(n.m, d.m) IN
  IF n.s > 0 THEN <<Mk(1, qr[1]), Mk(1, qr[2])>>
  ELSE IF qr[2] = <<>> THEN <<Mk(-1, qr[1]), Z0>>
       ELSE <<Mk(-1, Add(qr[1], <<1>>)), Mk(1, Sub(d.m, qr[2]))>>
BIsEven(a) == a.s = 0 \/ a.m[1] % 2 = 0
BMod5Is0(a) == a.s = 0 \/ a.m[1] % 5 = 0      \* B divisible by 10
====
