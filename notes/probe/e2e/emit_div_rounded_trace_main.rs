use fpdec::*;
use std::panic;
struct Rng(u64);
impl Rng { fn next(&mut self) -> u64 { self.0 ^= self.0 << 13; self.0 ^= self.0 >> 7; self.0 ^= self.0 << 17; self.0 }
 fn u128(&mut self) -> u128 { ((self.next() as u128) << 64) | self.next() as u128 }
 fn coeff(&mut self) -> i128 {
    let k = self.next() % 10;
    let mut c: i128 = match k {
        0 => (self.next() % 200) as i128,
        1 => 10_i128.pow((self.next() % 39) as u32) + (self.next() % 3) as i128 - 1,
        2 => i128::MAX - (self.next() % 3) as i128,
        3 => (i128::MAX / 10_i128.pow((self.next() % 20) as u32)).saturating_add((self.next() % 3) as i128 - 1),
        4 => (1_i128 << (self.next() % 127)) + (self.next() % 3) as i128 - 1,
        5 => 5 * 10_i128.pow((self.next() % 38) as u32),
        6 => ((self.next() % 1000) as i128) * 10_i128.pow((self.next() % 36) as u32),
        _ => { let bits = (self.next() % 127) as u32 + 1; (self.u128() >> (128 - bits)) as i128 }
    };
    if c == i128::MIN { c = 0 }
    if self.next() & 1 == 1 { c = -c; }
    c }
}
fn num(c: i128, f: u8) -> String {
    let s = if c > 0 { 1 } else if c < 0 { -1 } else { 0 };
    let mut a = c.unsigned_abs(); let mut limbs = vec![];
    while a > 0 { limbs.push((a % 10000).to_string()); a /= 10000; }
    format!("{{\"s\":{s},\"m\":[{}],\"f\":{f}}}", limbs.join(","))
}
const MODES: [(RoundingMode, &str); 8] = [(RoundingMode::Round05Up,"Round05Up"), (RoundingMode::RoundCeiling,"RoundCeiling"), (RoundingMode::RoundDown,"RoundDown"), (RoundingMode::RoundFloor,"RoundFloor"), (RoundingMode::RoundHalfDown,"RoundHalfDown"), (RoundingMode::RoundHalfEven,"RoundHalfEven"), (RoundingMode::RoundHalfUp,"RoundHalfUp"), (RoundingMode::RoundUp,"RoundUp")];
fn main() {
    panic::set_hook(Box::new(|_| {}));
    let mut r = Rng(0x1234567887654321);
    let n_iter: usize = std::env::args().nth(1).map(|s| s.parse().unwrap()).unwrap_or(1000);
    for _ in 0..n_iter {
        if r.next() % 4 == 0 { let m = MODES[(r.next() % 8) as usize]; RoundingMode::set_default(m.0); println!("{{\"ev\":\"set\",\"mode\":\"{}\"}}", m.1); }
        let (xc, yc) = (r.coeff(), r.coeff());
        let (p, q) = ((r.next() % 19) as u8, (r.next() % 19) as u8);
        let n = (r.next() % 19) as u8;
        let x = Decimal::new_raw(xc, p); let y = Decimal::new_raw(yc, q);
        let out = match panic::catch_unwind(move || x.div_rounded(y, n)) {
            Ok(d) => { let j = num(d.coefficient(), d.n_frac_digits()); format!("{{\"k\":\"ret\",{}", &j[1..]) }
            Err(_) => "{\"k\":\"panic\",\"s\":0,\"m\":[],\"f\":0}".to_string() };
        println!("{{\"ev\":\"call\",\"op\":\"div_rounded\",\"x\":{},\"y\":{},\"n\":{n},\"out\":{out}}}", num(xc, p), num(yc, q));
    }
}
