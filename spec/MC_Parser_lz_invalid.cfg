INIT Init
NEXT Next
CONSTANTS Alpha = {48,49,57,46,101,45,120}
 LMax = 5
 K = 2
 UBits = 8
 MaxFracP = 2
 Variant = "lz_invalid"
 EmitPaths = FALSE
INVARIANTS MacroAgrees Refines MemSafe Terminates EmitPath
CHECK_DEADLOCK FALSE
