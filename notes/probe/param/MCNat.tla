---- MODULE MCNat ----
\* miniature: 8-bit coefficients, MaxFrac 2, native ints ; implementation-shaped add vs AddAllowed ; RoundQ laws
EXTENDS NatDom, TLC
S == INSTANCE FpDecP WITH ZAdd <- NAdd, ZSub <- NSub, ZMul <- NMul, ZCmp <- NCmp, ZFloorDivMod <- NFloorDivMod, ZLit <- NLit,
       ZNeg <- NNeg, ZSign <- NSign, ZIsEven <- NIsEven, ZMod5Is0 <- NMod5Is0, ZPow10 <- NPow10, ZPow2 <- NPow2, MaxFrac <- 2, CoeffBits <- 7
Modes == {"RoundFloor","RoundCeiling","RoundDown","RoundUp","RoundHalfUp","RoundHalfDown","RoundHalfEven","Round05Up"}
VARIABLES xc, xf
Init == xc \in -127..127 /\ xf \in 0..2
Next == UNCHANGED <<xc, xf>>
\* transcription of Decimal + Decimal with rustc overflow checks (panic = Fail)
In8(z) == -128 <= z /\ z <= 127
ImplAdd(x, y) ==
  IF x.f = y.f THEN (IF In8(x.c + y.c) THEN S!Ret(x.c + y.c, x.f) ELSE S!Fail)
  ELSE IF x.f > y.f THEN LET b == y.c * 10^(x.f - y.f) IN IF In8(b) /\ In8(x.c + b) THEN S!Ret(x.c + b, x.f) ELSE S!Fail
  ELSE LET a == x.c * 10^(y.f - x.f) IN IF In8(a) /\ In8(a + y.c) THEN S!Ret(a + y.c, y.f) ELSE S!Fail
RefineAdd == \A yc \in -127..127, yf \in 0..2 :
   LET x == [c |-> xc, f |-> xf]  y == [c |-> yc, f |-> yf] IN ImplAdd(x, y) \in S!AddAllowed(x, y)
\* declarative cross-check of RoundQ: result is floor or ceil of n/d, and nearest modes minimise the distance
Abs(z) == IF z < 0 THEN -z ELSE z
RoundLaws == \A d \in 1..12, m \in Modes :
   LET q == S!RoundQ(xc, d, m)  fl == xc \div d IN
   /\ q \in {fl, fl + 1} /\ (xc % d = 0 => q = fl)
   /\ (m \in {"RoundHalfUp","RoundHalfDown","RoundHalfEven"} => \A q2 \in {fl, fl+1} : Abs(xc - q*d) <= Abs(xc - q2*d))
   /\ (m = "RoundCeiling" => q*d >= xc /\ (q-1)*d < xc)
   /\ (m = "RoundFloor" => q*d <= xc /\ (q+1)*d > xc)
   /\ (m = "RoundDown" => Abs(q*d) <= Abs(xc) /\ Abs(xc) - Abs(q*d) < d)
   /\ (m = "RoundUp" => Abs(q*d) >= Abs(xc) /\ Abs(q*d) - Abs(xc) < d)
====
