---------------------------- MODULE MC_BigInt ----------------------------
(* The bignum layer is itself model-checked before anything relies on it:    *)
(* (1) against TLC's native arithmetic for all pairs of a structured set of  *)
(*     31-bit values (limb boundaries, carries, borrows, 1-3 limbs);         *)
(* (2) by algebraic identities on 20..80-digit operands built from the same  *)
(*     set: (x*y + r) divmod y = (x, r), (x+y)-y = x, x*y = y*x, digit count. *)
EXTENDS BigInt, TLC
Small == (0..12) \cup (9997..10003) \cup {99, 100, 101, 4999, 5000, 5001, 19999, 20000, 46339, 46340, 46341,
          99989999, 99990000, 99990001, 99999999, 100000000, 100000001, 123456789, 999999999, 1000000000, 1073741823}
Vals == Small \cup {0 - v : v \in Small}
VARIABLES a, b
Init == a \in Vals /\ b = 0
Next == b' \in Vals /\ UNCHANGED a
Fits(z) == -2147483647 <= z /\ z <= 2147483647
Abs(z) == IF z < 0 THEN 0 - z ELSE z
Native ==
  /\ BAdd(BLit(a), BLit(b)) = BLit(a + b)
  /\ BSub(BLit(a), BLit(b)) = BLit(a - b)
  /\ BCmp(BLit(a), BLit(b)) = (IF a < b THEN -1 ELSE IF a > b THEN 1 ELSE 0)
  /\ (Abs(a) <= 46340 /\ Abs(b) <= 46340 => BMul(BLit(a), BLit(b)) = BLit(a * b))
  /\ (b > 0 => BFloorDivMod(BLit(a), BLit(b)) = <<BLit(a \div b), BLit(a % b)>>)
  /\ BDigits(BLit(a)) = (IF a = 0 THEN 0 ELSE CHOOSE k \in 1..10 : 10^(k-1) <= Abs(a) /\ (k = 10 \/ Abs(a) < 10^k))
  /\ BIsEven(BLit(a)) = (a % 2 = 0) /\ BMod5Is0(BLit(a)) = (a % 5 = 0)
\* multi-limb operands: x = a * 10^31 + b * 10^9 + a ; y = |b| * 10^17 + |a| + 1
Big(u, v) == BAdd(BAdd(BMul(BLit(u), BPow10(31)), BMul(BLit(v), BPow10(9))), BLit(u))
Identities ==
  LET x == Big(a, b)
      y == BAdd(BAdd(BMul(BLit(Abs(b)), BPow10(17)), BLit(Abs(a))), BLit(1))        \* > 0
      r == BLit(Abs(a) % 7)                                                          \* 0 <= r < y
      n == BAdd(BMul(x, y), r)
      qr == BFloorDivMod(n, y)
      sq == BMul(BMul(x, x), BMul(y, y))                                             \* up to ~170 digits: chunked multiply
  IN /\ qr[1] = x /\ qr[2] = r
     /\ BSub(BAdd(x, y), y) = x
     /\ BMul(x, y) = BMul(y, x)
     /\ BMul(BMul(x, y), BMul(x, y)) = sq
     /\ BFloorDivMod(sq, BMul(y, y))[2] = Z0
     /\ BCmp(BAdd(x, BLit(1)), x) = 1 /\ BCmp(BNeg(y), y) = -1
     /\ BMul(BPow2(64), BPow2(63)) = BPow2(127)
     /\ I128MaxLit = BSub(BPow2(127), BLit(1)) /\ I128MinLit = BNeg(BPow2(127))
     /\ \A k \in 0..40 : BPow10(k) = (IF k = 0 THEN BLit(1) ELSE BMul(BLit(10), BPow10(k - 1)))
     /\ BDigits(BPow10(38)) = 39 /\ BDigits(BSub(BPow10(38), BLit(1))) = 38
     /\ BFloorDivMod(BPow2(127), BPow10(29))[1] = BLit(1701411834) \* 2^127 = 170141183460469231731687303715884105728
=======================================================================
