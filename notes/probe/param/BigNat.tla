---- MODULE BigNat ----
EXTENDS Integers, Sequences, TLC
\* little-endian limbs base B, no trailing (most-significant) zero limbs; zero = <<>>
B == 10000

RECURSIVE Trim(_)
Trim(a) == IF a = <<>> THEN a ELSE IF a[Len(a)] = 0 THEN Trim(SubSeq(a, 1, Len(a)-1)) ELSE a

Limb(a, i) == IF i <= Len(a) THEN a[i] ELSE 0
Max(x, y) == IF x > y THEN x ELSE y

RECURSIVE CmpFrom(_,_,_)
CmpFrom(a, b, i) == IF i = 0 THEN 0 ELSE IF a[i] > b[i] THEN 1 ELSE IF a[i] < b[i] THEN -1 ELSE CmpFrom(a, b, i-1)
Cmp(a, b) == IF Len(a) > Len(b) THEN 1 ELSE IF Len(a) < Len(b) THEN -1 ELSE CmpFrom(a, b, Len(a))

RECURSIVE AddC(_,_,_,_,_)
AddC(a, b, i, c, acc) ==
  IF i > Len(a) /\ i > Len(b) THEN (IF c = 0 THEN acc ELSE Append(acc, c))
  ELSE LET s == Limb(a,i) + Limb(b,i) + c IN AddC(a, b, i+1, s \div B, Append(acc, s % B))
Add(a, b) == AddC(a, b, 1, 0, <<>>)

\* a >= b
RECURSIVE SubC(_,_,_,_,_)
SubC(a, b, i, br, acc) ==
  IF i > Len(a) THEN Trim(acc)
  ELSE LET s == a[i] - Limb(b,i) - br IN
       IF s < 0 THEN SubC(a, b, i+1, 1, Append(acc, s + B)) ELSE SubC(a, b, i+1, 0, Append(acc, s))
Sub(a, b) == SubC(a, b, 1, 0, <<>>)

RECURSIVE MulSmallC(_,_,_,_,_)
MulSmallC(a, d, i, c, acc) ==
  IF i > Len(a) THEN (IF c = 0 THEN acc ELSE Append(acc, c))
  ELSE LET s == a[i]*d + c IN MulSmallC(a, d, i+1, s \div B, Append(acc, s % B))
MulSmall(a, d) == IF d = 0 \/ a = <<>> THEN <<>> ELSE MulSmallC(a, d, 1, 0, <<>>)

RECURSIVE ColSum(_,_,_,_,_)
ColSum(a, b, k, i, hi) == \* sum_{i..hi} a[i]*b[k+1-i]
  IF i > hi THEN 0 ELSE a[i]*b[k+1-i] + ColSum(a, b, k, i+1, hi)
RECURSIVE CarryNorm(_,_,_,_)
CarryNorm(cols, i, c, acc) ==
  IF i > Len(cols) THEN (IF c = 0 THEN acc ELSE IF c < B THEN Append(acc, c) ELSE Append(Append(acc, c % B), c \div B))
  ELSE LET s == cols[i] + c IN CarryNorm(cols, i+1, s \div B, Append(acc, s % B))
\* column sums may exceed 2^31 if > 21 terms; split: use two-level: col sum of (a_i*b_j) each < 1e8
Mul(a, b) ==
  IF a = <<>> \/ b = <<>> THEN <<>> ELSE
  LET n == Len(a) m == Len(b)
      cols == [k \in 1..(n+m-1) |-> ColSum(a, b, k, Max(1, k+1-m), IF k < n THEN k ELSE n)]
  IN Trim(CarryNorm(cols, 1, 0, <<>>))

ShiftLimbs(a, k) == IF a = <<>> THEN a ELSE [i \in 1..k |-> 0] \o a

\* long division (Knuth D style with normalisation), base B limbs
RECURSIVE FixDown(_,_,_)
FixDown(r, b, d) == \* largest d' <= d with d'*b <= r (d overestimates by at most 2)
  IF d = 0 THEN 0 ELSE IF Cmp(MulSmall(b, d), r) <= 0 THEN d ELSE FixDown(r, b, d-1)
QEst(r, b) == \* b normalised: top limb >= B/2 ; r < b*B
  IF Cmp(r, b) < 0 THEN 0 ELSE
  LET lr == Len(r) lb == Len(b)
      rt == IF lr > lb THEN r[lr]*B + r[lr-1] ELSE r[lr]
      q0 == rt \div b[lb]
  IN FixDown(r, b, IF q0 > B-1 THEN B-1 ELSE q0)
RECURSIVE DivLoop(_,_,_,_,_)
DivLoop(a, b, i, r, q) ==
  IF i = 0 THEN <<Trim(q), r>> ELSE
  LET r1 == Trim(<<a[i]>> \o r)
      d == QEst(r1, b)
      r2 == IF d = 0 THEN r1 ELSE Sub(r1, MulSmall(b, d))
  IN DivLoop(a, b, i-1, r2, <<d>> \o q)
RECURSIVE DivSmallLoop(_,_,_,_,_)
DivSmallLoop(a, d, i, r, q) ==
  IF i = 0 THEN <<Trim(q), r>> ELSE
  LET t == r*B + a[i] IN DivSmallLoop(a, d, i-1, t % d, <<t \div d>> \o q)
DivSmall(a, d) == DivSmallLoop(a, d, Len(a), 0, <<>>)  \* d < B ; remainder is an Int
DivMod(a, b) ==
  IF Cmp(a, b) < 0 THEN <<(<<>>), a>> ELSE
  LET f == B \div (b[Len(b)] + 1)
      an == MulSmall(a, f) bn == MulSmall(b, f)
      qr == DivLoop(an, bn, Len(an), <<>>, <<>>)
  IN <<qr[1], IF f = 1 THEN qr[2] ELSE DivSmall(qr[2], f)[1]>>

RECURSIVE Pow10(_)
Pow10(k) == IF k = 0 THEN <<1>> ELSE IF k >= 4 THEN <<0>> \o Pow10(k-4) ELSE MulSmall(Pow10(k-1), 10)
====
