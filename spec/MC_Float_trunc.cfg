INIT Init
NEXT Next
CONSTANTS WB = 16
 FB = 3
 CMax = 4000
 MaxFracP = 2
 Variant = "trunc"
 Dir = "from"
INVARIANT Correct
CHECK_DEADLOCK FALSE
