SPECIFICATION Spec
CONSTANTS Kind = "round"
 NMax = 0
 DMax = 0
 LMax = 0
 ScaleSet = {0, 18}
INVARIANT Emit
CHECK_DEADLOCK FALSE
