---- MODULE FpSpike ----
EXTENDS BigInt, TLC
Two == BLit(2)
One == BLit(1)
RECURSIVE BPow2(_)
BPow2(k) == IF k = 0 THEN One ELSE IF k >= 13 THEN BMul(BLit(8192), BPow2(k-13)) ELSE BMul(Two, BPow2(k-1))
I128Max == BSub(BPow2(127), One)
I128Min == BNeg(BPow2(127))
InI128(z) == BCmp(I128Min, z) <= 0 /\ BCmp(z, I128Max) <= 0

\* exact n/d (d > 0) rounded to an integer, from the documented meaning of the modes
RoundQ(n, d, mode) ==
  LET qr == BFloorDivMod(n, d)  fl == qr[1]  r == qr[2]  up == BAdd(fl, One)
      tz == IF n.s >= 0 THEN fl ELSE up
      az == IF n.s >= 0 THEN up ELSE fl
      h  == BCmp(BMul(Two, r), d)
      nearest(tie) == IF h > 0 THEN up ELSE IF h < 0 THEN fl ELSE tie
  IN IF r.s = 0 THEN fl ELSE
     CASE mode = "RoundFloor" -> fl [] mode = "RoundCeiling" -> up
       [] mode = "RoundDown" -> tz [] mode = "RoundUp" -> az
       [] mode = "RoundHalfUp" -> nearest(az) [] mode = "RoundHalfDown" -> nearest(tz)
       [] mode = "RoundHalfEven" -> nearest(IF BIsEven(fl) THEN fl ELSE up)
       [] mode = "Round05Up" -> IF BMod5Is0(tz) THEN az ELSE tz
RoundQS(n, d, mode) == IF d.s < 0 THEN RoundQ(BNeg(n), BNeg(d), mode) ELSE RoundQ(n, d, mode)

Ret(c, s) == [k |-> "ret", c |-> c, f |-> s]
Fail == [k |-> "fail", c |-> Z0, f |-> 0]

DivRoundedAllowed(x, y, n, mode) ==
  IF n > 18 \/ y.c.s = 0 THEN {Fail} ELSE
  LET q == RoundQS(BMul(x.c, BPow10(n + y.f)), BMul(y.c, BPow10(x.f)), mode) IN
  (IF InI128(q) THEN {Ret(q, n)} ELSE {Fail})
  \cup (IF q.s = 0 THEN {Ret(Z0, k) : k \in 0..n} ELSE {})
  \cup (IF q = I128Min THEN {Fail} ELSE {})

\* ---- named deviations: what the code does (transcribed) ----
Kernel(quot, rem, divisor, mode) ==      \* fpdec-core round_quot
  LET inc == BAdd(quot, One)  h == BCmp(BMul(Two, rem), divisor) IN
  IF rem.s = 0 THEN quot ELSE
  CASE mode = "Round05Up" -> IF (quot.s >= 0 /\ BMod5Is0(quot)) \/ (quot.s < 0 /\ ~BMod5Is0(inc)) THEN inc ELSE quot
    [] mode = "RoundCeiling" -> inc
    [] mode = "RoundDown" -> IF quot.s < 0 THEN inc ELSE quot
    [] mode = "RoundFloor" -> quot
    [] mode = "RoundHalfDown" -> IF h > 0 \/ (h = 0 /\ quot.s < 0) THEN inc ELSE quot
    [] mode = "RoundHalfEven" -> IF h > 0 \/ (h = 0 /\ ~BIsEven(quot)) THEN inc ELSE quot
    [] mode = "RoundHalfUp" -> IF h > 0 \/ (h = 0 /\ quot.s >= 0) THEN inc ELSE quot
    [] mode = "RoundUp" -> IF quot.s >= 0 THEN inc ELSE quot
ImplDivRounded(n, d, mode) ==            \* i128_div_rounded
  LET nn == IF d.s < 0 THEN BNeg(n) ELSE n  dd == BAbs(d)  qr == BFloorDivMod(nn, dd)
  IN Kernel(qr[1], qr[2], dd, mode)
TruncDiv(a, b) == LET q == DivMod(a.m, b.m)[1] IN Mk(a.s * b.s, q)
\* F2: divisor-scaled branch truncates first
Dev_TruncFirst(x, y, n, mode) ==
  IF x.f > n + y.f /\ y.c.s # 0 /\ n <= 18
  THEN {Ret(ImplDivRounded(TruncDiv(x.c, y.c), BPow10(x.f - n - y.f), mode), n)} ELSE {}
\* F1: wide path sign fix-up for exact negative quotients
Dev_WideSignFixup(x, y, n, mode) ==
  IF x.f < n + y.f /\ y.c.s # 0 /\ n <= 18 THEN
    LET sx == BMul(x.c, BPow10(n + y.f - x.f))
        nn == IF y.c.s < 0 THEN BNeg(sx) ELSE sx   dd == BAbs(y.c)
        qr == DivMod(nn.m, dd.m)
    IN IF ~InI128(sx) /\ nn.s < 0 /\ qr[2] = <<>>
       THEN {Ret(Kernel(BSub(Mk(-1, qr[1]), One), dd, dd, mode), n)} ELSE {}
  ELSE {}
====
