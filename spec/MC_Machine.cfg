SPECIFICATION Spec
CONSTANTS Depth = 3
 Pos = {0, 1, 2, 3, 5, 10, 25, 100, 127}
INVARIANT OracleWellFormed
INVARIANT KeySet
INVARIANT TypeOK
CHECK_DEADLOCK FALSE
