---------------------------- MODULE NatInt ----------------------------
(* The integer domain of FpDec.tla instantiated with TLC's native Int.    *)
(* Only for miniature configurations: every intermediate must fit 31 bit. *)
EXTENDS Integers
IAdd(a,b) == a + b
ISub(a,b) == a - b
IMul(a,b) == a * b
ICmp(a,b) == IF a < b THEN -1 ELSE IF a > b THEN 1 ELSE 0
IFloorDivMod(n,d) == <<n \div d, n % d>>     \* TLC: floor semantics for d > 0
ILit(n) == n
INeg(a) == -a
IAbs(a) == IF a < 0 THEN -a ELSE a
ISign(a) == IF a < 0 THEN -1 ELSE IF a > 0 THEN 1 ELSE 0
IIsEven(a) == a % 2 = 0
IMod5Is0(a) == a % 5 = 0
IPow10(k) == 10^k
IPow2(k) == 2^k
RECURSIVE IDig(_)
IDig(a) == IF a = 0 THEN 0 ELSE 1 + IDig(a \div 10)
IDigits(a) == IDig(IAbs(a))
=======================================================================
