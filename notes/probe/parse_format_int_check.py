import re, sys
from fractions import Fraction
from collections import Counter, defaultdict
MAX=(1<<127)-1
MODES = ['05Up','Ceiling','Down','Floor','HalfDown','HalfEven','HalfUp','Up']
exec(open('check2.py').read().split("def ret(")[0].split("def rq")[1].join(["def rq",""]) if False else "")
def rq(n, d, mode):
    if d < 0: n, d = -n, -d
    fl = n // d; r = n - fl*d
    if r == 0: return fl
    up = fl+1; tz = fl if n >= 0 else up; az = up if n >= 0 else fl
    if mode=='Floor': return fl
    if mode=='Ceiling': return up
    if mode=='Down': return tz
    if mode=='Up': return az
    if mode in ('HalfUp','HalfDown','HalfEven'):
        if 2*r > d: return up
        if 2*r < d: return fl
        if mode=='HalfUp': return az
        if mode=='HalfDown': return tz
        return fl if fl % 2 == 0 else up
    if mode=='05Up': return az if abs(tz) % 5 == 0 else tz
LIT = re.compile(rb'^([+-]?)(?:(\d+)(?:\.(\d*))?|\.(\d+))(?:[eE]([+-]?)(\d+))?$')
def parse(b):
    if b == b'': return ('err','Empty')
    m = LIT.match(b)
    if not m: return ('err',)
    sign, ip, fp1, fp2, es, ed = m.groups()
    ip = ip or b''; fp = fp1 if fp1 is not None else (fp2 or b'')
    digits = int((ip+fp) or b'0'); fl = len(fp)
    e = int(ed) if ed else 0
    if es == b'-': e = -e
    nf = max(0, fl - e)
    if nf > 18: return ('err',)
    if digits == 0:
        return ('ok', 0, nf, 'zero')
    if e - fl > 40: return ('err',)
    c = digits * 10**max(0, e - fl)
    if c > MAX: return ('err',)
    return ('ok', -c if sign == b'-' else c, nf)
def canon(c, s):
    a = abs(c); sg = '-' if c < 0 else ''
    if s == 0: return sg + str(a)
    ip, fp = divmod(a, 10**s)
    return f"{sg}{ip}.{fp:0{s}d}"
def pad(sign_nonneg, body, width, fill, align, plus, zero):
    sg = '' if sign_nonneg and not plus else ('+' if sign_nonneg else '-')
    n = len(body) + len(sg)
    if width is None or n >= width: return sg + body
    padn = width - n
    if zero: return sg + '0'*padn + body
    if align == '<': return sg + body + fill*padn
    if align == '^': return fill*(padn//2) + sg + body + fill*((padn+1)//2)
    return fill*padn + sg + body
def fmt(c, s, mode, width, prec, fill=' ', align='>', plus=False, zero=False):
    if prec is None: pr = s
    else: pr = min(prec, 18)
    if pr >= s: a = abs(c) * 10**(pr - s)
    else: a = abs(rq(c, 10**(s-pr), mode))
    if pr == 0: body = str(a)
    else:
        ip, fp = divmod(a, 10**pr); body = f"{ip}.{fp:0{pr}d}"
    return pad(c >= 0, body, width, fill, align, plus, zero)
bad = defaultdict(list); cnt = Counter()
for line in open('out3.txt'):
    p = line.split()
    if p[0] == 'P':
        if p[1] in ('ok','err'): p.insert(1,'')
        b = bytes.fromhex(p[1])
        exp = parse(b)
        got = ('err', p[3]) if p[2] == 'err' else ('ok', int(p[3]), int(p[4]))
        cnt['P'] += 1
        if exp[0] == 'err':
            okk = got[0] == 'err' and (len(exp) == 1 or got[1] == exp[1]) and not (len(exp)==1 and got[1]=='Empty')
        else:
            okk = got[:3] == exp[:3]
        if not okk: bad['P'].append((b, got, exp))
    elif p[0] == 'P' : pass
    elif p[0] == 'D':
        c, s, mi, w, pr = map(int, p[1:6]); mode = MODES[mi]
        outs = [bytes.fromhex(h).decode() for h in p[6:]]
        exps = [canon(c,s), canon(c,s), f"Dec!({canon(c,s)})",
            fmt(c,s,mode,None,pr), fmt(c,s,mode,w,None), fmt(c,s,mode,w,pr),
            fmt(c,s,mode,w,pr,align='<'), fmt(c,s,mode,w,pr,align='^'), fmt(c,s,mode,w,pr,align='>'),
            fmt(c,s,mode,w,pr,zero=True), fmt(c,s,mode,w,pr,plus=True), fmt(c,s,mode,w,pr,plus=True,zero=True),
            fmt(c,s,mode,w,pr,fill='*',align='<'), fmt(c,s,mode,w,pr,fill='é',align='^'), fmt(c,s,mode,w,pr,fill='#',align='>',plus=True), fmt(c,s,mode,w,pr,align='<',zero=True)]
        for i,(o,e) in enumerate(zip(outs,exps)):
            cnt['D%d'%i] += 1
            if o != e: bad['D%d'%i].append((c,s,mode,w,pr,o,e))
    elif p[0] == 'I':
        which, c, s = int(p[1]), int(p[2]), int(p[3]); res = ' '.join(p[4:])
        rng = [(0,255),(-128,127),(0,65535),(-32768,32767),(0,2**32-1),(-2**31,2**31-1),(0,2**64-1),(-2**63,2**63-1),(-2**127,2**127-1),(0,2**128-1)][which]
        cnt['I'] += 1
        if c % 10**s != 0: exp = 'Err(NotAnIntValue)'
        else:
            v = c // 10**s
            exp = f'Ok({v})' if rng[0] <= v <= rng[1] else 'Err(ValueOutOfRange)'
        if res != exp: bad['I'].append((which,c,s,res,exp))
print(dict(cnt))
for k,v in bad.items():
    print('==',k,len(v)); 
    for x in v[:6]: print('   ',x)
# classify parse mismatches
cl = Counter()
for (b,got,exp) in bad['P']:
    if exp[0]=='ok' and got[0]=='err':
        m = LIT.match(b); sign, ip, fp1, fp2, es, ed = m.groups()
        if ed and len(ed) > 2: cl['exp>2 digits'] += 1
        elif (ip or b'').strip(b'0') == b'' and ip and not (fp1 or b'') : cl['zero int part, no frac digits (0e5, 0., 00.)'] += 1
        elif len(exp)==4: cl['zero digits other'] += 1
        else: cl['other ok->err'] += 1; 
        if cl['other ok->err'] and cl['other ok->err'] <= 5 and not (ed and len(ed)>2): print('OTHER', b, got, exp)
    elif exp[0]=='err' and got[0]=='ok': cl['accepted invalid/overflow'] += 1; 
    else: cl['value mismatch'] += 1
print(cl)
for (b,got,exp) in [x for x in bad['P'] if x[2][0]=='err' and x[1][0]=='ok'][:8]: print('ACC', b, got)
for (b,got,exp) in [x for x in bad['P'] if x[2][0]=='ok' and x[1][0]=='ok'][:8]: print('VAL', b, got, exp)
for (b,got,exp) in bad['P']:
    if exp[0]=='ok' and got[0]=='err' and len(exp)==4:
        m = LIT.match(b); sign, ip, fp1, fp2, es, ed = m.groups()
        if not (ed and len(ed) > 2) and not ((ip or b'').strip(b'0') == b'' and ip and not (fp1 or b'')): print('ZERO-OTHER', b, got, exp)
