SPECIFICATION Spec
CONSTANTS Kind = "kernel"
 NMax = 100
 DMax = 16
 LMax = 0
 ScaleSet = {0}
INVARIANT Emit
CHECK_DEADLOCK FALSE
