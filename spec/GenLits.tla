---------------------------- MODULE GenLits ----------------------------
(* C18 (direction G): the grammar machine of decimal literal tokens.       *)
(* A literal is sign, integer part, optional fraction, optional exponent;  *)
(* every part ranges over a class grid (boundaries of the coefficient      *)
(* range, of the 18-digit fraction limit, of the exponent range, lexically *)
(* odd but valid spellings).  TLC enumerates the full product; every       *)
(* literal is compiled as Dec!(lit) and parsed by from_str in the crate.   *)
EXTENDS Naturals, Sequences, TLC
CONSTANT Tier     \* "quick" | "thorough"

RECURSIVE Rep(_,_)
Rep(s, k) == IF k = 0 THEN "" ELSE s \o Rep(s, k - 1)

Signs == {"", "-", "+"}
IntParts ==
  {"", "0", "1", "9", "007", "12", "123456789",
   "170141183460469231731687303715884105727",          \* 2^127-1
   "170141183460469231731687303715884105728",          \* 2^127
   "100000000000000000000000000000000000000",          \* 10^38
   "99999999999999999999999999999999999999",           \* 10^38-1
   "440282366920938463463374607431768211456",          \* 2^128 + 10^38 (wraps to 10^38 in 128 bits)
   "17014118346046923173168730371588410572", "1701411834604692317316873037158841057",       \* floor(MAX/10), floor(MAX/100)
   "18446744073709551615", "17014118346046923174",                                           \* 2^64-1, floor(MAX/10^19)+1: word boundary x scaling bound
   "1" \o Rep("0", 39), Rep("9", 40)} \cup
  (IF Tier = "thorough" THEN {"17014118346046923173168730371588410571", "340282366920938463463374607431768211455",
                              "340282366920938463463374607431768211456", "510423550381407695195061911147652317183", Rep("0", 40) \o "5", "1" \o Rep("0", 20)} ELSE {})
FracParts ==
  {"none", "", "0", "5", "25", "000", Rep("0", 17) \o "1", Rep("0", 18) \o "1", Rep("9", 18), Rep("9", 19), "5" \o Rep("0", 20), Rep("0", 39) \o "1"} \cup
  (IF Tier = "thorough" THEN {"7", Rep("1", 18), Rep("0", 18), Rep("0", 19), "1" \o Rep("0", 17), Rep("0", 40), "170141183460469231731687303715884105727", "70141183460469231731687303715884105728"} ELSE {})
ExpParts ==
  {"none", "e0", "E0", "e1", "e+2", "E-1", "e-18", "e-19", "e18", "e19", "e38", "e39", "e40", "e-40", "e007", "e-000", "e+", "e"} \cup
  (IF Tier = "thorough" THEN {"e-2", "e2", "e17", "e20", "e21", "e22", "e37", "E+38", "e-17", "e-20", "e-38", "e-39", "e100", "e-100", "e0000000000000000000001", "e-"} ELSE {})

VARIABLES sign, ip, lit
vars == <<sign, ip, lit>>
Init == sign \in Signs /\ ip \in IntParts /\ lit = "?"
Next == /\ lit = "?"
        /\ \E fp \in FracParts, ep \in ExpParts :
             lit' = sign \o ip \o (IF fp = "none" THEN "" ELSE "." \o fp) \o (IF ep = "none" THEN "" ELSE ep)
        /\ UNCHANGED <<sign, ip>>
Spec == Init /\ [][Next]_vars
Emit == lit = "?" \/ PrintT("LIT " \o lit)
=======================================================================
