SPECIFICATION Spec
CONSTANTS Kind = "small"
 NMax = 7
 DMax = 0
 LMax = 0
 ScaleSet = {0}
INVARIANT Emit
CHECK_DEADLOCK FALSE
