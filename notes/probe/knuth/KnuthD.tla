---- MODULE KnuthD ----
\* miniature transcription of fpdec-core/src/lib.rs u256_idiv_u128_special / u256_idiv_u128
EXTENDS Integers, TLC
CONSTANT W                      \* half-word bits (64 in the crate)
B == 2^W                        \* half-word base
M == B * B                      \* word modulus (2^128 in the crate)
Hi(u) == u \div B
Lo(u) == u % B
RECURSIVE Msb(_)
Msb(u) == IF u <= 1 THEN 0 ELSE 1 + Msb(u \div 2)
Wrap(z) == z % M                \* TLC % is non-negative for positive modulus
\* the correction loop: returns <<q, rhat>>
RECURSIVE Corr(_,_,_,_,_)
Corr(q, rhat, yn1, yn0, xd) ==
  IF q >= B \/ q * yn0 > rhat * B + xd
  THEN LET q2 == q - 1  r2 == rhat + yn1 IN IF r2 >= B THEN <<q2, r2>> ELSE Corr(q2, r2, yn1, yn0, xd)
  ELSE <<q, rhat>>
Special(xh, xl, y) ==           \* pre: xh < y, Hi(y) # 0 ; returns <<quotient, remainder>>
  LET nb   == (2*W - 1) - Msb(y)
      yN   == y * 2^nb
      yn1  == Hi(yN)  yn0 == Lo(yN)
      sh   == IF nb = 0 THEN 0 ELSE xl \div 2^(2*W - nb)
      xn32 == Wrap(xh * 2^nb) + sh          \* `|` of disjoint bit ranges
      xn10 == Wrap(xl * 2^nb)
      xn1  == Hi(xn10)  xn0 == Lo(xn10)
      c1   == Corr(xn32 \div yn1, xn32 % yn1, yn1, yn0, xn1)
      q1   == c1[1]
      t    == Wrap(Wrap(xn32 * B) + xn1 - Wrap(q1 * yN) + M)
      c0   == Corr(t \div yn1, t % yn1, yn1, yn0, xn0)
      q0   == c0[1]
      r    == Wrap(Wrap(t * B) + xn0 - Wrap(q0 * yN) + M) \div 2^nb
  IN <<q1 * B + q0, r, q1, q0>>
VARIABLES xh, xl, y
Init == y \in B..(M-1) /\ xh \in 0..(M-1) /\ xh < y /\ xl \in 0..(M-1)
Next == UNCHANGED <<xh, xl, y>>
Correct == LET res == Special(xh, xl, y)  x == xh * M + xl IN
           /\ res[1] * y + res[2] = x
           /\ res[2] < y
           /\ res[3] < B /\ res[4] < B
====
