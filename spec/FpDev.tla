---------------------------- MODULE FpDev ----------------------------
(* Named deviation operators: for each OPEN known finding the transcription *)
(* of what the code does at that call site instead of what the property     *)
(* demands.  Explains(k, e, md) is TRUE only for exactly that misbehaviour  *)
(* (site condition on the inputs AND the deviating outcome), so a different *)
(* wrong result of the same operation is still a VIOLATION.                 *)
(* Findings that were repaired by a "fix:" commit have no operator here.    *)
EXTENDS BigInt
CONSTANTS MaxFrac, CoeffBits
T == INSTANCE FpText WITH MaxFrac <- MaxFrac, CoeffBits <- CoeffBits
I128Max == IF CoeffBits = 127 THEN I128MaxLit ELSE BSub(BPow2(CoeffBits), BLit(1))
I128Min == IF CoeffBits = 127 THEN I128MinLit ELSE BNeg(BPow2(CoeffBits))
S == INSTANCE FpDec WITH ZAdd <- BAdd, ZSub <- BSub, ZMul <- BMul, ZCmp <- BCmp, ZFloorDivMod <- BFloorDivMod,
       ZLit <- BLit, ZNeg <- BNeg, ZAbs <- BAbs, ZSign <- BSign, ZIsEven <- BIsEven, ZMod5Is0 <- BMod5Is0,
       ZPow10 <- BPow10, ZPow2 <- BPow2, ZDigits <- BDigits, MaxFrac <- MaxFrac, CoeffBits <- CoeffBits,
       CoeffMax <- I128Max, CoeffMin <- I128Min, MaxDigits <- 39
Num(j) == Mk(j.s, j.m)

(* F3 (C04): src/binops/div_rounded.rs impl_div_rounded_int_and_int - integer.div_rounded(integer, n) has *)
(* no n <= 18 guard (the crate's own unit test asks for 32 digits): for 18 < n the single-rounded         *)
(* quotient is returned with n fractional digits (zero dividend: 0 with 0 digits) instead of a panic.     *)
F3(e, md) ==
  /\ e.ev = "bin" /\ e.op = "div_rounded" /\ e.xt # "dec" /\ e.yt # "dec" /\ e.n > MaxFrac /\ e.y.s # 0
  /\ e.out.k = "ret"
  /\ IF e.x.s = 0 THEN e.out.s = 0 /\ e.out.f = 0
     ELSE /\ e.n <= 38 /\ e.out.f = e.n
          /\ Num(e.out) = S!RoundQS(BMul(Num(e.x), BPow10(e.n)), Num(e.y), md)

(* F13 (C03 C04 C10): the primitive integer i128::MIN = -2^127 as an operand of a division or remainder.  It is a legal    *)
(* integer operand (the statements quantify over all i128 values) although no Decimal has that coefficient.  The sign      *)
(* normalisations of fpdec-core/src/rounding.rs (i128_div_rounded, i128_shifted_div_rounded: `divisor = -divisor`,          *)
(* `divident = -divident`) and the magnitude computations of the wide path negate it: debug builds panic (also in          *)
(* checked_div, which must never panic), release builds wrap and return unspecified values.  `i128::MIN % Decimal(-1)`      *)
(* reaches the primitive `i128::MIN % -1`, which panics in every build (also in checked_rem).  Site condition = the        *)
(* operand; for the division family every outcome at that site is part of the finding (the release build's results are    *)
(* unspecified), for the remainder exactly the panic.                                                                      *)
F13(e, md) ==
  /\ e.ev = "bin"
  /\ LET minL == e.xt = "i128" /\ Num(e.x) = I128Min
         minR == e.yt = "i128" /\ Num(e.y) = I128Min
     IN \/ (e.op \in {"div", "checked_div", "div_rounded", "quantize"} /\ (minL \/ minR))
        \/ (e.op \in {"rem", "checked_rem"} /\ minL /\ e.yt = "dec" /\ e.y.s = -1 /\ e.y.m = <<1>> /\ e.y.f = 0 /\ e.out.k = "panic")

Explains(k, e, md) ==
  CASE k = "F3" -> F3(e, md)
    [] k = "F13" -> F13(e, md)
    [] OTHER -> FALSE
=======================================================================
