// fpv: conformance harness binding spec/Trace.tla to the real fpdec crate.
//   fpv drive <suite> <seed> <count>         class-biased driver -> ndjson events on stdout
//   fpv exec <file>                          execute call descriptions (TLC-generated vectors)
//   fpv threads <seed> <nthreads> <count>    C19: free-running threads, per-thread sequence
//   fpv sched <file>                         C19: replay TLC-generated schedules in lock-step
mod arch;
mod enc;
mod exec;
mod fmt;
mod forms;
mod gen;
mod suites;

use enc::Rng;
use serde_json::{json, Value};
use std::io::{BufRead, BufReader, Write};

/// run one call description on the calling thread and return the events it produced
/// (hook events first: internal mode reads and parser steps are observations of that call)
fn run_call(mut e: Value, st: &mut exec::St, out: &mut Vec<String>) {
    let _ = fpdec_core::verif::drain();
    let t = e["t"].as_u64().unwrap_or(1);
    exec::exec(&mut e, st);
    let mut paths: Vec<&'static str> = vec![];
    let is_get = e["ev"] == "get";
    for h in fpdec_core::verif::drain() {
        match h {
            fpdec_core::verif::Event::ModeRead(m) => {
                if !is_get {
                    out.push(json!({"ev": "mread", "t": t, "mode": exec::mode_name(m)}).to_string());
                }
            }
            fpdec_core::verif::Event::ModeSet(_) => {}
            fpdec_core::verif::Event::ParserStep { req, rem } => {
                out.push(json!({"ev": "pstep", "t": t, "req": req, "rem": rem}).to_string());
            }
            fpdec_core::verif::Event::Path(p) => paths.push(p),
        }
    }
    if !paths.is_empty() {
        e["paths"] = json!(paths);
    }
    out.push(e.to_string());
}

fn flush(lines: &[String]) {
    let stdout = std::io::stdout();
    let mut w = std::io::BufWriter::new(stdout.lock());
    for l in lines {
        w.write_all(l.as_bytes()).unwrap();
        w.write_all(b"\n").unwrap();
    }
    w.flush().unwrap();
}

fn worker(seed: u64, t: u32, n: usize, suite: &str) -> Vec<String> {
    let mut r = Rng::new(seed.wrapping_mul(1000003).wrapping_add(t as u64));
    let mut st = exec::St::new();
    let mut out = vec![];
    // the first observation of a new thread: its default mode
    run_call(json!({"ev": "get", "t": t}), &mut st, &mut out);
    for c in suites::suite(suite, &mut r, t, n) {
        run_call(c, &mut st, &mut out);
    }
    out
}

fn main() {
    if std::env::var("FPV_VERBOSE").is_err() {
        std::panic::set_hook(Box::new(|_| {}));
    }
    let args: Vec<String> = std::env::args().collect();
    let cmd = args.get(1).map(|s| s.as_str()).unwrap_or("");
    match cmd {
        "drive" => {
            let suite = &args[2];
            let seed: u64 = args[3].parse().unwrap();
            let n: usize = args[4].parse().unwrap();
            let mut r = Rng::new(seed);
            let mut st = exec::St::new();
            let mut out = vec![];
            // the ambient thread mode: drivers that do not set the mode themselves run under a seeded, mostly non-default
            // mode (operations defined without reference to the mode must not depend on it)
            run_call(json!({"ev": "set", "t": 1, "mode": exec::MODES[(seed % 8) as usize].1}), &mut st, &mut out);
            for c in suites::suite(suite, &mut r, 1, n) {
                run_call(c, &mut st, &mut out);
                if out.len() > 4096 {
                    flush(&out);
                    out.clear();
                }
            }
            flush(&out);
        }
        "exec" => {
            let f = std::fs::File::open(&args[2]).expect("vector file");
            let mut st = exec::St::new();
            let mut out = vec![];
            for line in BufReader::new(f).lines() {
                let line = line.unwrap();
                if line.trim().is_empty() {
                    continue;
                }
                let c: Value = serde_json::from_str(&line).expect("call description");
                if c["ev"] == "reset" {
                    st = exec::St::new();
                    fpdec::RoundingMode::set_default(fpdec::RoundingMode::RoundHalfEven);
                    continue;
                }
                run_call(c, &mut st, &mut out);
                if out.len() > 4096 {
                    flush(&out);
                    out.clear();
                }
            }
            flush(&out);
        }
        "threads" => {
            // free-running threads; every thread writes its own sequence; the trace lists the
            // spawn events first and then each thread's events in its own order (no wall clock)
            let seed: u64 = args[2].parse().unwrap();
            let k: u32 = args[3].parse().unwrap();
            let n: usize = args[4].parse().unwrap();
            let mut handles = vec![];
            let mut out = vec![];
            let barrier = std::sync::Arc::new(std::sync::Barrier::new(k as usize));
            for i in 0..k {
                let t = 2 + i;
                out.push(json!({"ev": "spawn", "t": 1, "c": t}).to_string());
                let b = barrier.clone();
                handles.push(std::thread::spawn(move || {
                    b.wait();
                    worker(seed, t, n, "c19")
                }));
            }
            // the main thread keeps changing its own mode while the others run
            let mut st = exec::St::new();
            let mut r = Rng::new(seed);
            for c in suites::suite("c19", &mut r, 1, n) {
                run_call(c, &mut st, &mut out);
            }
            for h in handles {
                out.extend(h.join().unwrap());
            }
            flush(&out);
        }
        "sched" => sched(&args[2]),
        _ => {
            eprintln!("usage: fpv drive|exec|threads|sched ...");
            std::process::exit(2);
        }
    }
}

// ---- C19 direction G: schedules generated by TLC (spec/MC_Modes.tla), one real thread per model thread ----
use std::collections::HashMap;
use std::sync::mpsc::{channel, Receiver, Sender};
enum Cmd {
    Set(String),
    Get,
    Round,
    Spawn(Receiver<Cmd>, Sender<Value>),
    Quit,
}
fn sched_worker(rx: Receiver<Cmd>, tx: Sender<Value>) {
    use fpdec::*;
    let mut children = vec![];
    loop {
        match rx.recv().unwrap() {
            Cmd::Set(m) => {
                RoundingMode::set_default(exec::mode_of(&m));
                tx.send(json!(null)).unwrap();
            }
            Cmd::Get => {
                tx.send(json!(exec::mode_name(RoundingMode::default()))).unwrap();
            }
            Cmd::Round => {
                // the probe of MC_Modes: results that distinguish all eight modes
                let a = Decimal::new_raw(25, 1).round(0).coefficient();          // 2.5
                let b = Decimal::new_raw(-25, 1).round(0).coefficient();         // -2.5
                let c = Decimal::new_raw(1, 0).div_rounded(Decimal::new_raw(3, 0), 0).coefficient(); // 1/3
                let d = Decimal::new_raw(-1, 0).div_rounded(Decimal::new_raw(3, 0), 0).coefficient(); // -1/3
                let e2 = Decimal::new_raw(35, 1).mul_rounded(Decimal::new_raw(10, 1), 0).coefficient(); // 3.5
                let f = (Decimal::new_raw(5, 10) * Decimal::new_raw(5, 9)).coefficient(); // 2.5e-18 -> 18 digits
                let g = format!("{:.0}", Decimal::new_raw(65, 1));                 // 6.5
                let h = Decimal::new_raw(27, 1).round(0).coefficient();           // 2.7
                // 256-bit product path: (10^21 + 1) * 0.5 at 18 digits, a tie in the 19th place
                let w = (Decimal::new_raw(1_000_000_000_000_000_000_001, 18) * Decimal::new_raw(500_000_000_000_000_000, 18)).coefficient()
                    - 500_000_000_000_000_000_000;
                let dv = (Decimal::new_raw(3, 18) / Decimal::TWO).coefficient();            // 1.5e-18: the `/` operator
                // an exact quotient on the 256-bit division path: no mode may change it
                let ex = (Decimal::new_raw(1_000_000_000_000_000_000_000, 0) / Decimal::new_raw(8, 0)).coefficient() - 125_000_000_000_000_000_000;
                // the "tiny" class: exact results far below one unit - 0 or one unit, decided by mode and sign only
                let t1 = Decimal::new_raw(4, 3).div_rounded(3_i32, 2).coefficient();                          // 0.004 / 3 at 2 digits (integer divisor)
                let t2 = Decimal::new_raw(-5, 2).div_rounded(Decimal::new_raw(7, 0), 1).coefficient();       // -0.05 / 7 at 1 digit (divisor-scaled branch)
                let t3 = Decimal::new_raw(-4, 4).quantize(Decimal::new_raw(1, 2)).coefficient();              // -0.0004 in units of 0.01
                tx.send(json!([a, b, c, d, e2, f, g.parse::<i64>().unwrap_or(99), h, w as i64, dv, ex as i64, t1 as i64, t2 as i64, t3 as i64])).unwrap();
            }
            Cmd::Spawn(crx, ctx) => {
                children.push(std::thread::spawn(move || sched_worker(crx, ctx)));
                tx.send(json!(null)).unwrap();
            }
            Cmd::Quit => break,
        }
    }
    for c in children {
        c.join().unwrap();
    }
}
fn sched(path: &str) {
    let f = std::fs::File::open(path).expect("schedule file");
    let (mut n, mut steps, mut bad) = (0u64, 0u64, 0u64);
    let mut out = vec![];
    for line in BufReader::new(f).lines() {
        let line = line.unwrap();
        if line.trim().is_empty() {
            continue;
        }
        let sched: Vec<Value> = serde_json::from_str(&line).expect("schedule");
        n += 1;
        let mut chans: HashMap<String, (Sender<Cmd>, Receiver<Value>)> = HashMap::new();
        let (tx, rx) = channel();
        let (rtx, rrx) = channel();
        // the model's main thread is run by a fresh real thread too: every schedule starts from a new thread
        let root = std::thread::spawn(move || sched_worker(rx, rtx));
        chans.insert("t1".to_string(), (tx, rrx));
        let mut mism: Vec<Value> = vec![];
        for (i, e) in sched.iter().enumerate() {
            steps += 1;
            let t = e["t"].as_str().unwrap();
            let (tx, rx) = chans.get(t).expect("actor must be alive");
            match e["a"].as_str().unwrap() {
                "set" => {
                    tx.send(Cmd::Set(e["m"].as_str().unwrap().to_string())).unwrap();
                    rx.recv().unwrap();
                }
                "get" => {
                    tx.send(Cmd::Get).unwrap();
                    let got = rx.recv().unwrap();
                    if got != e["m"] {
                        mism.push(json!({"step": i + 1, "want": e["m"], "got": got}));
                    }
                }
                "round" => {
                    tx.send(Cmd::Round).unwrap();
                    let got = rx.recv().unwrap();
                    if got != e["r"] {
                        mism.push(json!({"step": i + 1, "want": e["r"], "got": got}));
                    }
                }
                "spawn" => {
                    let c = e["c"].as_str().unwrap().to_string();
                    let (ctx, crx) = channel();
                    let (crtx, crrx) = channel();
                    tx.send(Cmd::Spawn(crx, crtx)).unwrap();
                    rx.recv().unwrap();
                    chans.insert(c, (ctx, crrx));
                }
                other => panic!("unknown schedule action {}", other),
            }
        }
        for (_, (tx, _)) in chans.iter() {
            let _ = tx.send(Cmd::Quit);
        }
        root.join().unwrap();
        if !mism.is_empty() {
            bad += 1;
            out.push(json!({"schedule": sched, "mismatches": mism}).to_string());
        }
    }
    out.push(json!({"summary": {"schedules": n, "steps": steps, "bad": bad}}).to_string());
    flush(&out);
}
