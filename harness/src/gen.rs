// Class-biased generators of call descriptions (DESIGN.md section 5): operands are built
// from the answer (ties, exact quotients, off-by-one overflow, representation variants).
use crate::enc::*;
use crate::exec::MODES;
use serde_json::{json, Value};

pub const MAXC: i128 = i128::MAX;
pub const INT_TYPES: [&str; 9] = ["u8", "i8", "u16", "i16", "u32", "i32", "u64", "i64", "i128"];

pub fn p10(k: u32) -> i128 {
    10_i128.pow(k)
}

fn clampc(c: i128) -> i128 {
    if c == i128::MIN { -MAXC } else { c }
}

/// 2^i * 5^j * m (m odd, small) with exponents over the whole range that fits: sparse bit / digit patterns
/// (zero limbs in products and quotients, exact wide divisions, quotients that are multiples of 2^64)
pub fn pow25(r: &mut Rng) -> i128 {
    let j = match r.below(3) { 0 => 0, 1 => r.below(20) as u32, _ => r.below(55) as u32 };
    let m: i128 = match r.below(3) { 0 => 1, 1 => 1 + 2 * r.below(8) as i128, _ => 1 + 2 * r.below(512) as i128 };
    let base = 5_i128.pow(j).saturating_mul(m);
    if base >= MAXC / 2 { return 5_i128.pow(j.min(54)); }
    let room = 126 - (128 - base.leading_zeros()) as u64;      // base * 2^room < 2^127
    let i = match r.below(3) { 0 => room, 1 => r.below(room + 1), _ => room.saturating_sub(r.below(8)) };
    base << i
}

/// class-biased coefficient, |c| <= 2^127-1
pub fn coeff(r: &mut Rng) -> i128 {
    let c: i128 = match r.below(20) {
        16 | 17 => pow25(r),
        18 => {
            // a special value (0, 1, small, 10^k) plus a multiple of 2^64: aliases it in the low word (64-bit fast paths)
            let base = match r.below(4) { 0 => 0, 1 => 1, 2 => r.below(1000) as i128, _ => p10(r.below(19) as u32) };
            let hi = match r.below(3) { 0 => 1, 1 => 1 + r.below(8) as i128, _ => (r.next() >> (2 + r.below(60))) as i128 };
            (hi << 64).saturating_add(base).min(MAXC)
        }
        19 => {
            // magnitude around the signed/unsigned 64-bit boundary
            (1_i128 << (63 + r.below(2))) + r.range(-2, 2) as i128 + if r.bool() { 0 } else { (r.next() >> 1) as i128 }
        }
        0 => 0,
        1 => r.range(-3, 3) as i128,
        2 => r.below(200) as i128,
        3 => p10(r.below(39) as u32).saturating_add(r.range(-1, 1) as i128),
        4 => MAXC - r.below(3) as i128,
        5 => (MAXC / p10(r.below(20) as u32)).saturating_add(r.range(-1, 1) as i128),
        6 => (1_i128 << r.below(127)).saturating_add(r.range(-1, 1) as i128),
        7 => 5_i128.saturating_mul(p10(r.below(38) as u32)),
        8 => (r.below(1000) as i128).saturating_mul(p10(r.below(36) as u32)),
        9 => {
            // 2^a 5^b m
            let mut v: i128 = 1;
            for _ in 0..r.below(60) { v = v.saturating_mul(2); }
            for _ in 0..r.below(19) { v = v.saturating_mul(5); }
            v.saturating_mul(1 + 2 * r.below(50) as i128)
        }
        10 => (r.u128() >> 64) as i128,
        11 => (r.u128() >> 1) as i128,
        _ => {
            let bits = r.below(127) as u32 + 1;
            (r.u128() >> (128 - bits)) as i128
        }
    };
    let c = if c < 0 { clampc(c) } else { c };
    if r.bool() { -c } else { c }
}

/// a Decimal operand in a random representation: (coefficient, scale)
pub fn decimal(r: &mut Rng) -> (i128, u8) {
    match r.below(12) {
        0 => (0, r.below(19) as u8),                          // non-normalised zero
        1 => {
            let f = r.below(19) as u32;                       // one in every scale
            (if r.below(4) == 0 { -p10(f) } else { p10(f) }, f as u8)
        }
        2 => {
            // small value with trailing zeros
            let f = r.below(19) as u32;
            let z = r.below(f as u64 + 1) as u32;
            ((r.range(-999, 999) as i128) * p10(z), f as u8)
        }
        3 => {
            // integral value written with fractional zeros
            let f = r.below(19) as u32;
            let v = r.range(-100000, 100000) as i128;
            (v * p10(f), f as u8)
        }
        _ => (coeff(r), r.below(19) as u8),
    }
}

/// "wrap alias" pair for every operation that aligns scales: (x, f) and (y, f + k) such that x * 10^k computed with
/// WRAPPING 128-bit arithmetic lands on y (or next to it) although the true product is far outside the coefficient range:
/// x = a + j * 2^(128-k), because 10^k = 2^k * 5^k annihilates the second term modulo 2^128.  Checked scaling must
/// treat such a pair as "x is huge", never as "x equals y".
pub fn wrap_alias(r: &mut Rng) -> ((i128, u8), (i128, u8)) {
    let k = 2 + r.below(17) as u32; // 2..=18
    let f = r.below(19 - k as u64) as u32; // f + k <= 18
    let a = r.range(-999, 999) as i128;
    let step: i128 = 1_i128 << (128 - k); // <= 2^126
    let jmax = ((MAXC - 1000) / step).max(1);
    let j = 1 + r.below(jmax.min(1 << 20) as u64) as i128;
    let x = if r.bool() { a + j * step } else { a - j * step };
    let y = a * p10(k) + r.range(-1, 1) as i128 * (r.below(2) as i128);
    ((x, f as u8), (y, (f + k) as u8))
}

pub fn int_value(r: &mut Rng, ty: &str) -> i128 {
    let (lo, hi): (i128, i128) = match ty {
        "u8" => (0, u8::MAX as i128),
        "i8" => (i8::MIN as i128, i8::MAX as i128),
        "u16" => (0, u16::MAX as i128),
        "i16" => (i16::MIN as i128, i16::MAX as i128),
        "u32" => (0, u32::MAX as i128),
        "i32" => (i32::MIN as i128, i32::MAX as i128),
        "u64" => (0, u64::MAX as i128),
        "i64" => (i64::MIN as i128, i64::MAX as i128),
        _ => (-MAXC, MAXC),
    };
    let v = match r.below(8) {
        0 => lo,
        1 => hi,
        2 => lo + 1,
        3 => hi - 1,
        4 => r.range(-2, 2) as i128,
        5 => r.range(-100, 100) as i128,
        6 => p10(r.below(39) as u32),
        _ => coeff(r),
    };
    if ty == "i128" {
        return if v == i128::MIN { -MAXC } else { v };
    }
    // fold into range
    let span = hi - lo + 1;
    (v.rem_euclid(span) - lo.rem_euclid(span)).rem_euclid(span) + lo
}

pub fn int_type(r: &mut Rng) -> &'static str {
    INT_TYPES[r.below(9) as usize]
}

pub fn dj(c: i128, f: u8) -> Value {
    dec_raw(c, f)
}

pub fn set_mode(r: &mut Rng, t: u32) -> Value {
    json!({"ev": "set", "t": t, "mode": MODES[r.below(8) as usize].1})
}

/// operand pair (x, xt, y, yt) for a binary operation; ints in ~1/3 of the cases
pub fn operand_pair(r: &mut Rng, allow_int_int: bool) -> (Value, &'static str, Value, &'static str) {
    let k = r.below(if allow_int_int { 7 } else { 6 });
    let (xc, xf) = decimal(r);
    let (yc, yf) = decimal(r);
    match k {
        0 => {
            let t = int_type(r);
            (dj(xc, xf), "dec", dj(int_value(r, t), 0), t)
        }
        1 => {
            let t = int_type(r);
            (dj(int_value(r, t), 0), t, dj(yc, yf), "dec")
        }
        6 => {
            let t = int_type(r);
            (dj(int_value(r, t), 0), t, dj(int_value(r, t), 0), t)
        }
        2 if r.below(4) == 0 => {
            // coefficients that alias each other under wrapping scale alignment
            let ((a, af), (b, bf)) = wrap_alias(r);
            if r.bool() { (dj(a, af), "dec", dj(b, bf), "dec") } else { (dj(b, bf), "dec", dj(a, af), "dec") }
        }
        _ => (dj(xc, xf), "dec", dj(yc, yf), "dec"),
    }
}

pub fn bin(t: u32, op: &str, x: Value, xt: &str, y: Value, yt: &str, n: i64, form: u64) -> Value {
    json!({"ev": "bin", "t": t, "op": op, "x": x, "y": y, "xt": xt, "yt": yt, "n": n, "acc": 0, "form": form})
}

// ---- arithmetic helpers for construction from the answer ----
fn mulmod(mut a: u128, mut b: u128, m: u128) -> u128 {
    // m < 2^127
    let mut res: u128 = 0;
    a %= m;
    b %= m;
    while b > 0 {
        if b & 1 == 1 {
            res = (res + a) % m;
        }
        a = (a << 1) % m;
        b >>= 1;
    }
    res
}
fn modinv(a: u128, m: u128) -> Option<u128> {
    // extended Euclid on i128 (m < 2^127)
    let (mut old_r, mut r) = (a as i128 % m as i128, m as i128);
    let (mut old_s, mut s) = (1_i128, 0_i128);
    while r != 0 {
        let q = old_r / r;
        let t = old_r - q * r;
        old_r = r;
        r = t;
        let t = old_s.wrapping_sub(q.wrapping_mul(s));
        old_s = s;
        s = t;
    }
    if old_r != 1 {
        return None;
    }
    Some(old_s.rem_euclid(m as i128) as u128)
}
fn pow10mod(k: u32, m: u128) -> u128 {
    let mut v = 1 % m;
    for _ in 0..k {
        v = mulmod(v, 10, m);
    }
    v
}
/// divisor class, coprime to 10
fn divisor_coprime(r: &mut Rng) -> i128 {
    let mut y: u128 = match r.below(8) {
        0 => 3,
        1 => r.below(1000) as u128 + 3,
        2 => (r.next() as u128) | 1,
        3 => (1u128 << 64) + r.below(1000) as u128,
        4 => (r.u128() >> 2) | (1u128 << 125),
        5 => (MAXC as u128) - r.below(1000) as u128,
        6 => ((r.next() >> 1) as u128) << 64 | 0xffff_ffff_ffff_fff1,      // minimal-ish top word, maximal low word
        _ => r.u128() >> (1 + r.below(120)),
    };
    if y < 3 { y = 3; }
    y |= 1;
    while y % 5 == 0 { y += 2; }
    if y > MAXC as u128 { y = MAXC as u128 - 2; while y % 5 == 0 || y % 2 == 0 { y -= 1; } }
    y as i128
}

/// (x, y, k): x*10^k divided by y has its remainder in a chosen class {0, 1, just below / above half, y-1}
pub fn div_construct(r: &mut Rng, k: u32) -> (i128, i128) {
    let y = divisor_coprime(r) as u128;
    let x0 = coeff(r).unsigned_abs().max(1);
    let pk = pow10mod(k, y);
    let r0 = mulmod(x0, pk, y);
    let target: u128 = match r.below(6) {
        0 => 0,
        1 => 1 % y,
        2 => (y - 1) / 2,          // just below half (y odd)
        3 => (y + 1) / 2,          // just above half
        4 => y - 1,
        _ => r.u128() % y,
    };
    let x = match modinv(pk, y) {
        Some(inv) => {
            let d = mulmod((target + y - r0) % y, inv, y);
            // move x0 by d (or by d - y) so that (x*10^k) mod y = target
            if x0.checked_add(d).map_or(false, |v| v <= MAXC as u128) {
                x0 + d
            } else if x0 >= y - d {
                x0 - (y - d)
            } else {
                x0
            }
        }
        None => x0,
    };
    (x as i128, y as i128)
}

/// exact tie of x*10^k / y : x = g(2t+1), y = 2g*10^j with j <= k  (value t*10^(k-j) + 10^(k-j)/2 ... tie iff j = k)
pub fn tie_construct(r: &mut Rng, k: u32) -> (i128, i128) {
    let g: i128 = match r.below(4) { 0 => 1, 1 => r.below(1000) as i128 + 1, 2 => (r.next() >> 8) as i128 + 1, _ => 3 };
    let pk = p10(k.min(36));
    let y = match g.checked_mul(2).and_then(|v| v.checked_mul(pk)) {
        Some(v) => v,
        None => 2 * pk,
    };
    let g = y / (2 * pk);
    let tmax = (MAXC / g - 1) / 2;
    let t = match r.below(4) {
        0 => r.below(20) as i128,
        1 => tmax - r.below(3) as i128,
        _ => ((r.u128() >> 1) as i128) % (tmax + 1),
    };
    (g * (2 * t + 1), y)
}

pub fn sign2(r: &mut Rng, x: i128, y: i128) -> (i128, i128) {
    let (a, b) = match r.below(4) { 0 => (x, y), 1 => (-x, y), 2 => (x, -y), _ => (-x, -y) };
    (a, b)
}

/// (x, y, k): x*10^k / y = i128::MAX + r/y with 0 < r < y: the floor quotient is the largest coefficient
/// and rounding up is not representable (1 <= k <= 3, y < 10^k coprime to 10)
pub fn max_quotient_construct(r: &mut Rng) -> (i128, i128, u32) {
    loop {
        let k = 1 + r.below(3) as u32;
        let pk = p10(k);
        let mut y = 3 + r.below((pk - 3) as u64) as i128;
        if y % 2 == 0 { y += 1; }
        if y % 5 == 0 { y += 2; }
        if y >= pk { continue; }
        let (a, b) = (MAXC / pk, MAXC % pk);
        let rem = (pk - (b * y) % pk) % pk;      // (MAX*y + rem) = 0 mod 10^k
        if rem == 0 || rem >= y { continue; }
        let x = a * y + (b * y + rem) / pk;
        return (x, y, k);
    }
}

// ---- Knuth-D adversarial operands (C16: "quotient-digit estimate too large by 1 or 2") ----
// Operands are built from the *digits the algorithm will see*: the normalised divisor (yn1, yn0),
// the quotient digit estimate and the first partial remainder, including the boundary where the
// corrected partial remainder is exactly 2^64.  `nb` is the normalisation shift (1..=63).
fn knuth_divisor(r: &mut Rng, nb: u32) -> (u128, u128, i128) {
    let b64: u128 = 1 << 64;
    let yn1: u128 = match r.below(6) {
        0 => (1 << 63) + r.below(3) as u128,
        1 => b64 - 1 - r.below(3) as u128,
        2 => (1 << 63) + (r.next() >> 2) as u128,
        _ => (1 << 63) | (r.next() >> 1) as u128,
    };
    let mask: u128 = !((1u128 << nb) - 1) & (b64 - 1);
    let yn0: u128 = match r.below(5) {
        0 => (b64 - 1) & mask,
        1 => 0,
        2 => (1u128 << nb) & (b64 - 1),
        _ => (r.next() as u128) & mask,
    };
    let m = ((yn1 << 64) | yn0) >> nb;
    (yn1, yn0, m as i128)
}
fn knuth_digit(r: &mut Rng, lim: u128) -> u128 {
    // a quotient digit below lim
    let v = match r.below(6) { 0 => 1, 1 => 2, 2 => 3, 3 => lim - 1, 4 => 1 << r.below(62), _ => (r.next() as u128) >> r.below(40) };
    v.min(lim - 1).max(1)
}
fn knuth_rhat(r: &mut Rng, yn1: u128) -> u128 {
    // first partial remainder (< yn1): boundary classes around 2^64 - yn1 (one correction step lands on exactly 2^64)
    let b64: u128 = 1 << 64;
    let edge = b64 - yn1;
    let v = match r.below(8) { 0 => 0, 1 => 1, 2 => edge, 3 => edge.saturating_sub(1), 4 => edge + 1, 5 => yn1 - 1, 6 => edge / 2, _ => (r.next() as u128) % yn1 };
    v.min(yn1 - 1)
}
/// (a, b, m) for i256_div_mod_floor: |a| * |b| = N has the chosen digits in the first (stage 1) or second (stage 2) quotient step
pub fn knuth_i256(r: &mut Rng) -> Option<(i128, i128, i128)> {
    let nb = match r.below(6) { 0 => 1, 1 => 2, 2 => 32, 3 => 63, _ => 1 + r.below(63) as u32 };
    let (yn1, _yn0, m) = knuth_divisor(r, nb);
    let stage2 = r.below(3) == 0;
    let q = knuth_digit(r, 1 << 61);
    let top = q.checked_mul(yn1)?.checked_add(knuth_rhat(r, yn1))?;      // xn32 (stage 1) or t (stage 2)
    if top >= (1 << 126) { return None; }
    let total_shift = if stage2 { 64 - nb } else { 128 - nb };
    let bits = 128 - top.leading_zeros();
    let t1 = (126 - bits).min(total_shift);
    let t2 = total_shift - t1;
    if t2 > 126 { return None; }
    let a = (top << t1) as i128;
    let b = 1_i128 << t2;
    let (a, b) = if r.bool() { (a, b) } else { (b, a) };
    Some((a, b, m))
}
fn modinv_u(a: u128, m: u128) -> Option<u128> { modinv(a % m, m) }
/// (a, k, m) for i128_shifted_div_mod_floor / div_rounded: |a| * 10^k has the chosen digits in the first quotient step
pub fn knuth_shifted(r: &mut Rng) -> Option<(i128, u32, i128)> {
    let nb = 40 + r.below(24) as u32;
    let (yn1, _yn0, m) = knuth_divisor(r, nb);
    if yn1 % 5 == 0 { return None; }
    let kmin = (126 - nb + 2) * 100 / 332 + 1;
    let k = (kmin + r.below(3) as u32).min(26);
    let p5 = 5u128.pow(k);
    let rhat0 = knuth_rhat(r, yn1);
    // q1 * yn1 + rhat0 = 0 (mod 5^k)
    let inv = modinv_u(yn1 % p5, p5)?;
    let q1 = mulmod((p5 - rhat0 % p5) % p5, inv, p5) + p5 * r.below(2) as u128;
    if q1 == 0 || q1 >= (1 << 62) { return None; }
    let xn32 = q1.checked_mul(yn1)?.checked_add(rhat0)?;
    if xn32 % p5 != 0 || 128 < nb + k { return None; }
    let core = xn32 / p5;
    let sh = 128 - nb - k;
    if (128 - core.leading_zeros()) + sh > 126 { return None; }
    Some(((core << sh) as i128, k, m))
}

/// floor(m * 2^128 / d) for m < d/2 (so that the result is below 2^127), with the remainder flag
fn shl128_div(m: u128, d: u128) -> (u128, bool) {
    let mut rem = m % d;
    let mut q: u128 = 0;
    for _ in 0..128 {
        rem <<= 1;
        q <<= 1;
        if rem >= d {
            rem -= d;
            q |= 1;
        }
    }
    (q, rem != 0)
}
/// (a, k, m): the high 128-bit word of a * 10^k equals the divisor m >= 2^64 exactly (dispatch boundary between the
/// one-step and the two-step wide division); the quotient is just above 2^128, so every result must be an overflow signal
pub fn high_word_equals_divisor(r: &mut Rng) -> Option<(i128, u32, i128)> {
    let k = 20 + r.below(19) as u32;                       // 10^k / 2 > 2^64
    let d = p10(k) as u128;
    let lim = d / 2 - 1;
    let m: u128 = match r.below(3) { 0 => (1u128 << 64) + r.below(1000) as u128, 1 => lim - r.below(1000) as u128, _ => (1u128 << 64) + r.u128() % (lim - (1u128 << 64)) };
    if m < (1u128 << 64) || m >= lim { return None; }
    let (q, inexact) = shl128_div(m, d);
    let a = q + inexact as u128 + r.below(2) as u128;      // ceil (+1: still the same high word unless d is tiny)
    if a > MAXC as u128 { return None; }
    Some((a as i128, k, m as i128))
}
/// (a, b, m) with b = 2^j: the high word of a * b equals m exactly
pub fn high_word_equals_divisor_mul(r: &mut Rng) -> (i128, i128, i128) {
    let j = 66 + r.below(61) as u32;                        // 66..126
    let mbits = j - 2;                                       // m < 2^(j-2), m >= 2^64
    let m: u128 = ((1u128 << 64) | (r.u128() >> (128 - mbits + 1))).min((1u128 << mbits) - 1);
    let a = (m << (128 - j)) | (r.u128() & ((1u128 << (128 - j)) - 1));
    (a as i128, 1i128 << j, m as i128)
}
