---- MODULE TraceP ----
EXTENDS BigDom, Json, IOUtils, Sequences, TLC
S == INSTANCE FpDecP WITH ZAdd <- BAdd, ZSub <- BSub, ZMul <- BMul, ZCmp <- BCmp, ZFloorDivMod <- BFloorDivMod, ZLit <- BLit,
       ZNeg <- BNeg, ZSign <- BSign, ZIsEven <- BIsEven, ZMod5Is0 <- BMod5Is0, ZPow10 <- BPow10, ZPow2 <- BPow2, MaxFrac <- 18, CoeffBits <- 127
Rec == ndJsonDeserialize(IOEnv.TRACE)
VARIABLES l, mode, bad
vars == <<l, mode, bad>>
Num(j) == Mk(j.s, j.m)
D(j) == [c |-> Num(j), f |-> j.f]
Out(j) == IF j.k = "ret" THEN S!Ret(Num(j), j.f) ELSE S!Fail
Init == l = 1 /\ mode = "RoundHalfEven" /\ bad = <<>>
SetMode == l <= Len(Rec) /\ Rec[l].ev = "set" /\ mode' = Rec[l].mode /\ l' = l + 1 /\ UNCHANGED bad
Call == /\ l <= Len(Rec) /\ Rec[l].ev = "call"
        /\ LET e == Rec[l] IN
           IF Out(e.out) \in S!DivRoundedAllowed(D(e.x), D(e.y), e.n, mode) THEN UNCHANGED bad ELSE bad' = Append(bad, l)
        /\ l' = l + 1 /\ UNCHANGED mode
Next == SetMode \/ Call
Spec == Init /\ [][Next]_vars
Report == l <= Len(Rec) \/ PrintT(<<"RESULT", Len(Rec), "nbad", Len(bad)>>)
====
