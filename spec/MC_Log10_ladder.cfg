INIT Init
NEXT Next
CONSTANTS Variant = "ok"
 Part = "ladder"
INVARIANTS SmallCorrect LadderCorrect
CHECK_DEADLOCK FALSE
