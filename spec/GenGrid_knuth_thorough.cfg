SPECIFICATION Spec
CONSTANTS Kind = "knuth"
 NMax = 0
 DMax = 0
 LMax = 0
 ScaleSet = {0}
INVARIANT Emit
CHECK_DEADLOCK FALSE
