INIT Init
NEXT Next
CONSTANTS CMax = 60
 MaxFracP = 2
 Variant = "no_clamp"
INVARIANTS StringRefines DisplayRefines
CHECK_DEADLOCK FALSE
