SPECIFICATION Spec
CONSTANTS Kind = "kernel"
 NMax = 130
 DMax = 24
 LMax = 0
 ScaleSet = {0}
INVARIANT Emit
CHECK_DEADLOCK FALSE
