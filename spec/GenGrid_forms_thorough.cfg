SPECIFICATION Spec
CONSTANTS Kind = "forms"
 NMax = 32
 DMax = 12
 LMax = 0
 ScaleSet = {0}
INVARIANT Emit
CHECK_DEADLOCK FALSE
