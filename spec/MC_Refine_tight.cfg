INIT Init
NEXT Next
CONSTANT CMax = 30
CONSTANT Variant = "ok"
INVARIANT Tight
CHECK_DEADLOCK FALSE
