SPECIFICATION Spec
INVARIANT Report
POSTCONDITION Accepted
CHECK_DEADLOCK FALSE
