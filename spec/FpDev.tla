---------------------------- MODULE FpDev ----------------------------
(* Named deviation operators: for each OPEN known finding the transcription *)
(* of what the code does at that call site instead of what the property     *)
(* demands.  Explains(k, e, md) is TRUE only for exactly that misbehaviour  *)
(* (site condition on the inputs AND the deviating outcome), so a different *)
(* wrong result of the same operation is still a VIOLATION.                 *)
(* Findings that were repaired by a "fix:" commit have no operator here.    *)
EXTENDS BigInt
CONSTANTS MaxFrac, CoeffBits
T == INSTANCE FpText WITH MaxFrac <- MaxFrac, CoeffBits <- CoeffBits
I128Max == IF CoeffBits = 127 THEN I128MaxLit ELSE BSub(BPow2(CoeffBits), BLit(1))
I128Min == IF CoeffBits = 127 THEN I128MinLit ELSE BNeg(BPow2(CoeffBits))
S == INSTANCE FpDec WITH ZAdd <- BAdd, ZSub <- BSub, ZMul <- BMul, ZCmp <- BCmp, ZFloorDivMod <- BFloorDivMod,
       ZLit <- BLit, ZNeg <- BNeg, ZAbs <- BAbs, ZSign <- BSign, ZIsEven <- BIsEven, ZMod5Is0 <- BMod5Is0,
       ZPow10 <- BPow10, ZPow2 <- BPow2, ZDigits <- BDigits, MaxFrac <- MaxFrac, CoeffBits <- CoeffBits,
       CoeffMax <- I128Max, CoeffMin <- I128Min, MaxDigits <- 39
Num(j) == Mk(j.s, j.m)

(* F3 (C04): src/binops/div_rounded.rs impl_div_rounded_int_and_int - integer.div_rounded(integer, n) has *)
(* no n <= 18 guard (the crate's own unit test asks for 32 digits): for 18 < n the single-rounded         *)
(* quotient is returned with n fractional digits (zero dividend: 0 with 0 digits) instead of a panic.     *)
F3(e, md) ==
  /\ e.ev = "bin" /\ e.op = "div_rounded" /\ e.xt # "dec" /\ e.yt # "dec" /\ e.n > MaxFrac /\ e.y.s # 0
  /\ e.out.k = "ret"
  /\ IF e.x.s = 0 THEN e.out.s = 0 /\ e.out.f = 0
     ELSE /\ e.n <= 38 /\ e.out.f = e.n
          /\ Num(e.out) = S!RoundQS(BMul(Num(e.x), BPow10(e.n)), Num(e.y), md)

Explains(k, e, md) ==
  CASE k = "F3" -> F3(e, md)
    [] OTHER -> FALSE
=======================================================================
