import sys
from fractions import Fraction
from collections import Counter, defaultdict
MAX = (1<<127)-1; MIN = -(1<<127)
MODES = ['05Up','Ceiling','Down','Floor','HalfDown','HalfEven','HalfUp','Up']
def in128(z): return MIN <= z <= MAX
def rq(n, d, mode):
    # round n/d (d != 0) to integer per mode (Python decimal semantics)
    if d < 0: n, d = -n, -d
    fl = n // d; r = n - fl*d
    if r == 0: return fl
    up = fl+1
    tz = fl if n >= 0 else up
    az = up if n >= 0 else fl
    if mode=='Floor': return fl
    if mode=='Ceiling': return up
    if mode=='Down': return tz
    if mode=='Up': return az
    if mode in ('HalfUp','HalfDown','HalfEven'):
        if 2*r > d: return up
        if 2*r < d: return fl
        if mode=='HalfUp': return az
        if mode=='HalfDown': return tz
        return fl if fl % 2 == 0 else up
    if mode=='05Up': return az if abs(tz) % 5 == 0 else tz
def ret(c, s): return f"{c}:{s}"
def norm(c, s):
    if c == 0: return (0, 0)
    while s > 0 and c % 10 == 0: c //= 10; s -= 1
    return (c, s)
def veq(got, c, s):
    # value equality of got "c:s" with c/10^s
    if got in ('panic','none'): return False
    gc, gs = map(int, got.split(':'))
    return Fraction(gc, 10**gs) == Fraction(c, 10**s)
bad = defaultdict(list); cnt = Counter()
def expect(name, got, allowed, line):
    cnt[name] += 1
    if got not in allowed: bad[name].append((line, got, allowed))
for line in open('out2.txt'):
    p = line.split()
    xc, ps, yc, qs, mi, n, ni = map(int, p[1:8])
    mode = MODES[mi]
    g = dict(kv.split('=') for kv in p[8:])
    m = max(ps, qs); ax = xc*10**(m-ps); ay = yc*10**(m-qs)
    # add/sub
    for op, res in (('add', ax+ay), ('sub', ax-ay)):
        ok = in128(ax) and in128(ay) and in128(res)
        expect(op, g[op], {ret(res, m)} if ok else {'panic'}, line)
        expect('c'+op, g['c'+op], {ret(res, m)} if ok else {'none'}, line)
    # mul
    prod = xc*yc; sc = ps+qs
    x1 = (xc == 10**ps); y1 = (yc == 10**qs)
    if xc == 0 or yc == 0 or x1 or y1:
        # value exact, scale unspecified
        cnt['mul']+=1
        val = Fraction(prod, 10**sc)
        if not veq(g['mul'], prod, sc): bad['mul'].append((line, g['mul'], 'shortcut'))
        cnt['cmul']+=1
        if not veq(g['cmul'], prod, sc): bad['cmul'].append((line, g['cmul'], 'shortcut'))
    else:
        if sc <= 18:
            expect('mul', g['mul'], {ret(prod, sc)} if in128(prod) else {'panic'}, line)
            expect('cmul', g['cmul'], {ret(prod, sc)} if in128(prod) else {'none'}, line)
        else:
            c = rq(prod, 10**(sc-18), mode)
            al = {ret(c,18)} if in128(c) else {'panic'}
            if c == MIN: al = {ret(c,18), 'panic'}
            expect('mul', g['mul'], al, line)
            expect('cmul', g['cmul'], {'none'}, line)
    # div
    if yc == 0:
        expect('div', g['div'], {'panic'}, line); expect('cdiv', g['cdiv'], {'none'}, line)
    elif y1:
        expect('div', g['div'], {ret(xc, ps)} | ({ret(0,0)} if xc==0 else set()), line)
        expect('cdiv', g['cdiv'], {ret(xc, ps)} | ({ret(0,0)} if xc==0 else set()), line)
    else:
        c = rq(xc*10**(18+qs), yc*10**ps, mode)
        if in128(c):
            al = {ret(*norm(c,18))}
            if c == MIN: al |= {'panic','none'}
        else: al = None
        expect('div', g['div'], al or {'panic'}, line)
        expect('cdiv', g['cdiv'], al or {'none'}, line)
    # rem
    if yc == 0:
        expect('rem', g['rem'], {'panic'}, line); expect('crem', g['crem'], {'none'}, line)
    else:
        # truncated remainder at scale m
        t = abs(ax)//abs(ay); r = abs(ax) - t*abs(ay)
        if ax < 0: r = -r
        may_ovf = ps < qs and not in128(ax)
        for op, f in (('rem','panic'), ('crem','none')):
            cnt[op]+=1
            got = g[op]
            if got == f:
                if not may_ovf: bad[op].append((line, got, 'unexpected failure'))
            elif got in ('panic','none'): bad[op].append((line, got, 'wrong failure kind'))
            else:
                gc, gs = map(int, got.split(':'))
                if not (Fraction(gc, 10**gs) == Fraction(r, 10**m) and gs <= m): bad[op].append((line, got, ret(r, m)))
    # div_rounded
    if yc == 0: expect('divr', g['divr'], {'panic'}, line)
    else:
        c = rq(xc*10**(n+qs), yc*10**ps, mode)
        al = {ret(c, n)} if in128(c) else {'panic'}
        if c == 0: al |= {ret(0, k) for k in range(n+1)}
        if c == MIN: al |= {'panic'}
        expect('divr', g['divr'], al, line)
    # mul_rounded
    if n >= sc:
        al = {ret(prod, sc)} if in128(prod) else {'panic'}
        if prod == 0: al |= {ret(0,k) for k in range(19)}
    else:
        c = rq(prod, 10**(sc-n), mode)
        al = {ret(c, n)} if in128(c) else {'panic'}
        if c == 0: al |= {ret(0,k) for k in range(n+1)}
        if c == MIN: al |= {'panic'}
    expect('mulr', g['mulr'], al, line)
    # quantize: value only
    cnt['quant'] += 1
    if yc == 0:
        if g['quant'] != 'panic': bad['quant'].append((line, g['quant'], 'panic'))
    else:
        k = rq(xc*10**qs, yc*10**ps, mode)   # x/y rounded to int
        # result value k*y
        if g['quant'] == 'panic':
            # representable if k*yc fits at scale qs
            if in128(k) and in128(k*yc) : bad['quant'].append((line, 'panic', ret(k*yc, qs)))
        elif not veq(g['quant'], k*yc, qs): bad['quant'].append((line, g['quant'], ret(k*yc, qs)))
    # round
    if ni >= ps: al = {ret(xc, ps)}; alc = al
    else:
        c = rq(xc, 10**(ps-ni), mode)
        if ni >= 0: v = (c, ni)
        else: v = (c*10**(-ni), 0)
        if in128(v[0]): al = {ret(*v)}; alc = al
        else: al = {'panic'}; alc = {'none'}
        if c == 0: al = al | {ret(0,0)}; alc = alc | {ret(0,0)}
    expect('round', g['round'], al, line); expect('cround', g['cround'], alc, line)
    # cmp
    o = 'Some(Less)' if ax < ay else ('Some(Greater)' if ax > ay else 'Some(Equal)')
    expect('cmp', g['cmp'], {o}, line); expect('eq', g['eq'], {'true' if ax==ay else 'false'}, line)
print(dict(cnt))
for k, v in bad.items():
    print('==', k, len(v))
    for (line, got, al) in v[:4]:
        p = line.split()
        print('   in:', ' '.join(p[1:8]), 'mode', MODES[int(p[5])], 'got', got, 'allowed', al)

# ---- classify mismatches by named deviation models ----
def kernel(quot, rem, divisor, mode):
    # transcription of round_quot
    if rem == 0: return quot
    if mode=='05Up':
        if (quot >= 0 and quot % 5 == 0) or (quot < 0 and (abs(quot+1)) % 5 != 0): return quot+1
    elif mode=='Ceiling': return quot+1
    elif mode=='Down':
        if quot < 0: return quot+1
    elif mode=='Floor': return quot
    elif mode=='HalfDown':
        if 2*rem > divisor or (2*rem == divisor and quot < 0): return quot+1
    elif mode=='HalfEven':
        if 2*rem > divisor or (2*rem == divisor and quot % 2 != 0): return quot+1
    elif mode=='HalfUp':
        if 2*rem > divisor or (2*rem == divisor and quot >= 0): return quot+1
    elif mode=='Up':
        if quot >= 0: return quot+1
    return quot
def tdiv(a, b):
    q = abs(a)//abs(b)
    return q if (a<0)==(b<0) else -q
def impl_wide_divmod(x, y):   # y > 0 ; buggy sign fixup
    q = abs(x)//y; r = abs(x) % y
    if q > MAX: return None
    if x < 0: q = -q-1; r = y - r
    return q, r
def impl_div_rounded(x, y, mode):  # i128_div_rounded
    if y < 0: x, y = -x, -y
    q = x // y; r = x - q*y
    return kernel(q, r, y, mode)
def impl_checked_div_rounded(xc, p, yc, q, n, mode):
    shift = n + q
    if p == shift: return impl_div_rounded(xc, yc, mode)
    if p < shift:
        sh = shift - p
        sx = xc * 10**sh
        if in128(sx): return impl_div_rounded(sx, yc, mode)
        x, y = (xc, yc) if yc > 0 else (-xc, -yc)
        qr = impl_wide_divmod(x * 10**sh, y)
        if qr is None: return None
        return kernel(qr[0], qr[1], y, mode)
    sh = p - shift
    return impl_div_rounded(tdiv(xc, yc), 10**sh, mode)
def impl_mul_rounded(xc, p, yc, q, n, mode):
    sc = p+q
    if n >= sc: return (xc*yc, sc) if in128(xc*yc) else None
    sh = sc - n
    if in128(xc*yc): return (impl_div_rounded(xc*yc, 10**sh, mode), n)
    qr = impl_wide_divmod(xc*yc, 10**sh)
    if qr is None: return None
    return (kernel(qr[0], qr[1], 10**sh, mode), n)
unexplained = Counter(); explained = Counter()
for name in ('divr','div','cdiv','mulr','mul','quant','round','cround'):
    for (line, got, al) in bad[name]:
        p = line.split(); xc, ps, yc, qs, mi, n, ni = map(int, p[1:8]); mode = MODES[mi]
        ok = False
        if name == 'divr':
            c = impl_checked_div_rounded(xc, ps, yc, qs, n, mode)
            ok = (got == (ret(c, n) if c is not None and in128(c) else 'panic'))
        elif name in ('div','cdiv'):
            c = impl_checked_div_rounded(xc, ps, yc, qs, 18, mode)
            ok = c is not None and got == ret(*norm(c, 18))
        elif name == 'mulr':
            r = impl_mul_rounded(xc, ps, yc, qs, n, mode); ok = r is not None and got == ret(*r)
        elif name == 'mul':
            r = impl_mul_rounded(xc, ps, yc, qs, 18, mode); ok = r is not None and got == ret(*r)
        elif name == 'quant':
            c = impl_checked_div_rounded(xc, ps, yc, qs, 0, mode)
            ok = c is not None and veq(got, c*yc, qs)
        elif name in ('round','cround'):
            ok = (ni < ps - 38 and got == '0:0')
        (explained if ok else unexplained)[name] += 1
        if not ok and unexplained[name] <= 3: print('UNEXPLAINED', name, ' '.join(p[1:8]), mode, got, al)
print('explained', dict(explained)); print('unexplained', dict(unexplained))
