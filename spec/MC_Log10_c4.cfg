INIT Init
NEXT Next
CONSTANTS Variant = "c4"
 Part = "small"
INVARIANTS SmallCorrect LadderCorrect
CHECK_DEADLOCK FALSE
