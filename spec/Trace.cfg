SPECIFICATION Spec
CONSTANT OpenFindings = {}
INVARIANT Report
PROPERTY ModeIsolation
CHECK_DEADLOCK FALSE
