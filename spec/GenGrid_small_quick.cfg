SPECIFICATION Spec
CONSTANTS Kind = "small"
 NMax = 12
 DMax = 0
 LMax = 0
 ScaleSet = {0}
INVARIANT Emit
CHECK_DEADLOCK FALSE
