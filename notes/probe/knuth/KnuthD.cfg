CONSTANT W = 3
INIT Init
NEXT Next
INVARIANT Correct
CHECK_DEADLOCK FALSE
