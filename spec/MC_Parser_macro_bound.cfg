INIT Init
NEXT Next
CONSTANTS Alpha = {48,49,50,57,46,101,45}
 LMax = 4
 K = 2
 UBits = 8
 MaxFracP = 2
 Variant = "macro_bound"
 EmitPaths = FALSE
INVARIANTS MacroAgrees Refines MemSafe Terminates EmitPath
CHECK_DEADLOCK FALSE
