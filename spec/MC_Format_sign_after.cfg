INIT Init
NEXT Next
CONSTANTS CMax = 60
 MaxFracP = 2
 Variant = "sign_after"
INVARIANTS StringRefines DisplayRefines
CHECK_DEADLOCK FALSE
