SPECIFICATION Spec
CONSTANTS NThreads = 2
 ModesUsed = {"Round05Up","RoundCeiling","RoundDown","RoundFloor","RoundHalfDown","RoundHalfEven","RoundHalfUp","RoundUp"}
 MaxDepth = 4
 Variant = "ok"
 EmitSchedules = TRUE
INVARIANT Isolation
INVARIANT Emit
CHECK_DEADLOCK FALSE
