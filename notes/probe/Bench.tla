---- MODULE Bench ----
EXTENDS BigNat, Json, IOUtils
VARIABLE i
Data == ndJsonDeserialize(IOEnv.TRACE)
Init == i = 1
Check(e) == LET qr == DivMod(Mul(e.a, e.b), e.c) IN
            /\ qr[1] = e.q /\ qr[2] = e.r
Next == i <= Len(Data) /\ Check(Data[i]) /\ i' = i + 1
Spec == Init /\ [][Next]_i
Done == TLCGet("stats").diameter - 1 = Len(Data)
====
