---------------------------- MODULE MC_Refine ----------------------------
(* HOW vs WHAT at miniature constants (8-bit coefficients, 2 fractional       *)
(* digits): implementation-shaped transcriptions of the crate's algorithms    *)
(* (as they are after the fix commits) must refine the outcome predicates of  *)
(* FpDec.tla for ALL operands of the miniature domain.  Design-level evidence *)
(* for the algorithms (alignment with checked scaling, the rounding kernel on *)
(* floor quotient + remainder, the three scale branches of div_rounded with   *)
(* the sticky bit, comparison with sign-reasoning fall-back, step-wise        *)
(* remainder) and the home of the negative controls: transcriptions of the    *)
(* defective variants (Variant # "ok") must be rejected by TLC.               *)
EXTENDS NatInt, TLC
CONSTANT CMax
CONSTANT Variant      \* "ok" | "trunc_first" (F2) | "halfdown_tie" | "cmp_sign" | "rem_loop" | "div_no_norm" | "gcd_twos" | "far_zero" | "floor_sign" (seed C15-e) | "cast_range" (seed C14-e)
S == INSTANCE FpDec WITH ZAdd <- IAdd, ZSub <- ISub, ZMul <- IMul, ZCmp <- ICmp, ZFloorDivMod <- IFloorDivMod, ZLit <- ILit,
       ZNeg <- INeg, ZAbs <- IAbs, ZSign <- ISign, ZIsEven <- IIsEven, ZMod5Is0 <- IMod5Is0, ZPow10 <- IPow10, ZPow2 <- IPow2,
       ZDigits <- IDigits, MaxFrac <- 2, CoeffBits <- 7, CoeffMax <- 127, CoeffMin <- -128, MaxDigits <- 3
In8(z) == -128 <= z /\ z <= 127
Abs(z) == IF z < 0 THEN 0 - z ELSE z
Sgn(z) == IF z < 0 THEN -1 ELSE IF z > 0 THEN 1 ELSE 0
TDiv(a, b) == Sgn(a) * Sgn(b) * (Abs(a) \div Abs(b))           \* Rust `/` (truncating)
TRem(a, b) == a - b * TDiv(a, b)                                \* Rust `%`
Coeffs == (0 - CMax)..CMax \cup {-127, -126, -100, -64, -50, 50, 64, 100, 126, 127}
Scales == 0..2
VARIABLES xc, xf, yc, yf
Init == xc \in Coeffs /\ xf \in Scales /\ yc = 0 /\ yf = 3
Next == yf = 3 /\ yc' \in Coeffs /\ yf' \in Scales /\ UNCHANGED <<xc, xf>>
X == [c |-> xc, f |-> xf]
Y == [c |-> yc, f |-> yf]
Ready == yf # 3

(* ---- fpdec-core round_quot / i128_div_rounded ---- *)
RoundQuot(quot, rem, divisor, mode) ==
  LET inc == quot + 1  rd == 2 * rem IN
  IF rem = 0 THEN quot ELSE
  CASE mode = "Round05Up" -> IF (quot >= 0 /\ quot % 5 = 0) \/ (quot < 0 /\ inc % 5 # 0) THEN inc ELSE quot
    [] mode = "RoundCeiling" -> inc
    [] mode = "RoundDown" -> IF quot < 0 THEN inc ELSE quot
    [] mode = "RoundFloor" -> quot
    [] mode = "RoundHalfDown" -> IF rd > divisor \/ (rd = divisor /\ (IF Variant = "halfdown_tie" THEN quot <= 0 ELSE quot < 0)) THEN inc ELSE quot
    [] mode = "RoundHalfEven" -> IF rd > divisor \/ (rd = divisor /\ quot % 2 # 0) THEN inc ELSE quot
    [] mode = "RoundHalfUp" -> IF rd > divisor \/ (rd = divisor /\ quot >= 0) THEN inc ELSE quot
    [] mode = "RoundUp" -> IF quot >= 0 THEN inc ELSE quot
DivRoundedKernel(n, d, mode) ==          \* d # 0
  LET nn == IF d < 0 THEN 0 - n ELSE n  dd == Abs(d) IN RoundQuot(nn \div dd, nn % dd, dd, mode)
KernelRefines == ~Ready \/ yc = 0 \/ \A mode \in S!Modes :
   S!KernelOk(xc * 10^xf, yc, mode, S!Ret(DivRoundedKernel(xc * 10^xf, yc, mode), 0))

(* ---- checked_div_rounded (three scale branches; the wide fall-back is exact arithmetic here) + div_rounded ---- *)
CheckedDivRounded(dc, df, vc, vf, n, mode) ==       \* coefficient or "none"
  LET shift == n + vf IN
  IF df = shift THEN DivRoundedKernel(dc, vc, mode)
  ELSE IF df < shift THEN DivRoundedKernel(dc * 10^(shift - df), vc, mode)      \* i128 or 256-bit path: same value
  ELSE LET sh == df - shift  quot == TDiv(dc, vc) IN
       IF Variant = "trunc_first" THEN DivRoundedKernel(quot, 10^sh, mode)
       ELSE IF TRem(dc, vc) = 0 THEN DivRoundedKernel(quot, 10^sh, mode)
       ELSE DivRoundedKernel(2 * quot + (IF (dc < 0) = (vc < 0) THEN 1 ELSE -1), 2 * 10^sh, mode)
ImplDivRounded(n, mode) ==
  IF n > 2 THEN S!Fail ELSE IF yc = 0 THEN S!Fail ELSE IF xc = 0 THEN S!Ret(0, 0)
  ELSE LET q == CheckedDivRounded(xc, xf, yc, yf, n, mode) IN IF In8(q) THEN S!Ret(q, n) ELSE S!Fail
DivRoundedRefines == ~Ready \/ \A n \in 0..3, mode \in S!Modes : S!DivRoundedOk(X, Y, n, mode, ImplDivRounded(n, mode))

(* ---- + - with checked alignment ---- *)
ImplAddSub(neg) ==
  LET m == IF xf > yf THEN xf ELSE yf  a == xc * 10^(m - xf)  b == yc * 10^(m - yf)  s == IF neg THEN a - b ELSE a + b IN
  IF In8(a) /\ In8(b) /\ In8(s) THEN S!Ret(s, m) ELSE S!Fail
AddSubRefines == ~Ready \/ (S!AddSubOk(X, Y, FALSE, ImplAddSub(FALSE)) /\ S!AddSubOk(X, Y, TRUE, ImplAddSub(TRUE)))

(* ---- partial_cmp: checked alignment, sign reasoning when the alignment overflows ---- *)
ImplCmp ==
  LET a == IF xf < yf THEN xc * 10^(yf - xf) ELSE xc   b == IF yf < xf THEN yc * 10^(xf - yf) ELSE yc IN
  IF In8(a) /\ In8(b) THEN ICmp(a, b)
  ELSE IF ~In8(a) THEN (IF xc > 0 THEN 1 ELSE -1)
  ELSE (IF (IF Variant = "cmp_sign" THEN yc > 0 ELSE yc < 0) THEN 1 ELSE -1)
CmpRefines == ~Ready \/ ImplCmp = S!CmpVal(X, Y)

(* ---- rem: aligned %, divisor-side overflow, step-wise reduction with its overflow exit ---- *)
RECURSIVE RemLoop(_,_,_)
RemLoop(rem, shift, dv) ==      \* <<ok, value>>
  IF (IF Variant = "rem_loop" THEN rem > 0 ELSE rem # 0) /\ shift > 0
  THEN IF In8(rem * 10) THEN RemLoop(TRem(rem * 10, dv), shift - 1, dv) ELSE <<FALSE, 0>>
  ELSE <<TRUE, rem>>
ImplRem ==
  IF yc = 0 THEN S!Fail ELSE IF xc = 0 THEN S!Ret(0, 0)
  ELSE IF yc = 10^yf THEN S!Ret(TRem(xc, 10^xf), xf)                       \* divisor one: fract
  ELSE IF xf = yf THEN S!Ret(TRem(xc, yc), xf)
  ELSE IF xf > yf THEN (IF In8(yc * 10^(xf - yf)) THEN S!Ret(TRem(xc, yc * 10^(xf - yf)), xf) ELSE S!Ret(xc, xf))
  ELSE IF In8(xc * 10^(yf - xf)) THEN S!Ret(TRem(xc * 10^(yf - xf), yc), yf)
  ELSE LET l == RemLoop(TRem(xc, yc), yf - xf, yc) IN IF l[1] THEN S!Ret(l[2], yf) ELSE S!Fail
RemRefines == ~Ready \/ S!RemOk(X, Y, ImplRem)

(* ---- Decimal * Decimal via checked_mul_rounded (i128 or 256-bit product: same value) ---- *)
ImplMul(mode) ==
  IF xc = 0 \/ yc = 0 THEN S!Ret(0, 0)
  ELSE IF yc = 10^yf THEN S!Ret(xc, xf) ELSE IF xc = 10^xf THEN S!Ret(yc, yf)
  ELSE LET pq == xf + yf  p == xc * yc IN
       IF pq <= 2 THEN (IF In8(p) THEN S!Ret(p, pq) ELSE S!Fail)
       ELSE LET q == DivRoundedKernel(p, 10^(pq - 2), mode) IN IF In8(q) THEN S!Ret(q, 2) ELSE S!Fail
MulRefines == ~Ready \/ \A mode \in S!Modes : S!MulDecOk(X, Y, mode, ImplMul(mode))

(* ---- round ---- *)
\* round.rs: no-op, the "far" branch (shift beyond the digits of any coefficient: 38 in the crate, 2 here), the regular branch
ImplRound(n, mode) ==
  IF n >= xf THEN S!Ret(xc, xf)
  ELSE IF n < xf - 2
  THEN LET unit == IF Variant = "far_zero" THEN 0 ELSE DivRoundedKernel(Sgn(xc), 10, mode) IN
       IF unit = 0 THEN S!Ret(0, 0) ELSE IF 0 - n > 2 THEN S!Fail
       ELSE IF In8(unit * 10^(0 - n)) THEN S!Ret(unit * 10^(0 - n), 0) ELSE S!Fail
  ELSE LET q == DivRoundedKernel(xc, 10^(xf - n), mode) IN
       IF n >= 0 THEN S!Ret(q, n) ELSE IF In8(q * 10^(0 - n)) THEN S!Ret(q * 10^(0 - n), 0) ELSE S!Fail
RoundRefines == ~Ready \/ \A n \in -6..3, mode \in S!Modes : S!RoundOk(X, n, mode, ImplRound(n, mode))

(* ---- checked_div: checked_div_rounded at the maximal scale, then normalize ---- *)
RECURSIVE Norm(_,_)
Norm(c, f) == IF c = 0 THEN <<0, 0>> ELSE IF f > 0 /\ c % 10 = 0 THEN Norm(c \div 10, f - 1) ELSE <<c, f>>
ImplDiv(mode) ==
  IF yc = 0 THEN S!Fail ELSE IF xc = 0 THEN S!Ret(0, 0) ELSE IF yc = 10^yf THEN S!Ret(xc, xf)
  ELSE LET q == CheckedDivRounded(xc, xf, yc, yf, 2, mode) IN
       IF ~In8(q) THEN S!Fail ELSE LET n == Norm(q, 2) IN IF Variant = "div_no_norm" THEN S!Ret(q, 2) ELSE S!Ret(n[1], n[2])
DivRefines == ~Ready \/ \A mode \in S!Modes : S!DivOk(X, Y, mode, ImplDiv(mode))

(* ---- quantize: div_rounded(quant, 0) * quant ---- *)
ImplQuantize(mode) ==
  IF yc = 0 THEN S!Fail
  ELSE LET t == ImplDivRounded(0, mode) IN
       IF t.k # "ret" THEN S!Fail
       ELSE LET m == LET tx == [c |-> t.c, f |-> t.f] IN          \* Decimal * Decimal of the product rule above, operands (t, Y)
                     IF t.c = 0 THEN S!Ret(0, 0) ELSE IF yc = 10^yf THEN S!Ret(t.c, t.f) ELSE IF t.c = 1 THEN S!Ret(yc, yf)
                     ELSE IF In8(t.c * yc) THEN S!Ret(t.c * yc, yf) ELSE S!Fail
            IN m
QuantizeRefines == ~Ready \/ \A mode \in S!Modes : S!QuantizeOk(X, Y, mode, ImplQuantize(mode))

(* ---- as_integer_ratio: gcd_special (binary gcd of the coefficient and 10^n, powers of two split off first) ---- *)
RECURSIVE Tz(_)
Tz(v) == IF v % 2 = 1 THEN 0 ELSE 1 + Tz(v \div 2)            \* trailing_zeros, v > 0
RECURSIVE GcdLoop(_,_)
GcdLoop(u, v) == IF v = 0 THEN u ELSE
                 LET v1 == v \div 2^Tz(v)
                     u2 == IF u > v1 THEN v1 ELSE u
                     v2 == IF u > v1 THEN u ELSE v1
                 IN GcdLoop(u2, v2 - u2)
GcdSpecial(numer, e) == LET u0 == Abs(numer)  utz == Tz(u0)  u == u0 \div 2^utz  v == 10^e \div 2^e
                            tw == IF Variant = "gcd_twos" THEN utz ELSE IF utz < e THEN utz ELSE e
                        IN GcdLoop(u, v) * 2^tw
ImplRatio == IF xf = 0 \/ xc = 0 THEN <<xc, 1>>
             ELSE LET g == GcdSpecial(xc, xf) IN <<TDiv(xc, g), 10^xf \div g>>
RatioRefines == ImplRatio = S!Ratio(X)

(* ---- unops.rs: floor / ceil via truncating divmod + sign tests, trunc, fract ---- *)
DivFloor(a, b) == LET q == TDiv(a, b)  r == TRem(a, b) IN
                  IF (r > 0 /\ b < 0) \/ ((IF Variant = "floor_sign" THEN a < 0 ELSE r < 0) /\ b > 0) THEN q - 1 ELSE q
DivCeil(a, b) == LET q == TDiv(a, b)  r == TRem(a, b) IN IF (r > 0 /\ b > 0) \/ (r < 0 /\ b < 0) THEN q + 1 ELSE q
UnaryRefines ==
  /\ (IF xf = 0 THEN xc ELSE DivFloor(xc, 10^xf)) = S!FloorVal(X)
  /\ (IF xf = 0 THEN xc ELSE DivCeil(xc, 10^xf)) = S!CeilVal(X)
  /\ (IF xf = 0 THEN xc ELSE TDiv(xc, 10^xf)) = S!TruncVal(X)
  /\ (IF xf = 0 THEN 0 ELSE TRem(xc, 10^xf)) = S!FractCoeff(X)

(* ---- into_int.rs: integral test by remainder, then the range of the target type; from_int.rs: widening ---- *)
IntTypes == {<<0, 15>>, <<-8, 7>>, <<0, 255>>, <<-128, 127>>}            \* u4 i4 u8 i8 stand for u8 .. u128
ImplIntoInt(lo, hi) ==
  LET i == IF xf = 0 \/ xc = 0 THEN <<"ok", xc>> ELSE IF TRem(xc, 10^xf) = 0 THEN <<"ok", TDiv(xc, 10^xf)>> ELSE <<"NotAnIntValue", 0>> IN
  IF i[1] # "ok" THEN i[1]
  ELSE IF Variant = "cast_range" /\ hi = 255 THEN "ok"                   \* seed C14-e: a round-trip cast is the identity for the widest unsigned type
  ELSE IF lo <= i[2] /\ i[2] <= hi THEN "ok" ELSE "ValueOutOfRange"
IntoIntRefines == \A t \in IntTypes : ImplIntoInt(t[1], t[2]) = S!IntoIntKind(X, t[1], t[2])

(* ---- tightness of the oracle (non-vacuity): where the transcription returns a value, the predicate must   *)
(* ---- reject the neighbouring coefficients at the same scale, and the failure signal (unless the value is  *)
(* ---- the -2^7 corner where either answer is allowed)                                                      *)
Off(o, d) == S!Ret(o.c + d, o.f)
TightAt(o, Ok(_)) == o.k # "ret" \/ o.c = -128 \/ (~Ok(Off(o, 1)) /\ ~Ok(Off(o, -1)) /\ ~Ok(S!Fail))
TightVal(o, Ok(_)) == o.k # "ret" \/ o.c = -128 \/ (~Ok(Off(o, 1)) /\ ~Ok(Off(o, -1)))     \* where the statement also permits a failure signal
Tight == ~Ready \/
  /\ TightAt(ImplAddSub(FALSE), LAMBDA o : S!AddSubOk(X, Y, FALSE, o))
  /\ TightAt(ImplAddSub(TRUE), LAMBDA o : S!AddSubOk(X, Y, TRUE, o))
  /\ TightVal(ImplRem, LAMBDA o : S!RemOk(X, Y, o))
  /\ \A mode \in S!Modes :
       /\ TightVal(ImplMul(mode), LAMBDA o : S!MulDecOk(X, Y, mode, o))
       /\ \A n \in 0..2 : TightAt(ImplDivRounded(n, mode), LAMBDA o : S!DivRoundedOk(X, Y, n, mode, o))
       /\ \A n \in -2..2 : TightAt(ImplRound(n, mode), LAMBDA o : S!RoundOk(X, n, mode, o))
=======================================================================
