INIT Init
NEXT Next
CONSTANT CMax = 127
CONSTANT Variant = "ok"
INVARIANT KernelRefines
INVARIANT DivRoundedRefines
INVARIANT AddSubRefines
INVARIANT CmpRefines
INVARIANT RemRefines
INVARIANT MulRefines
INVARIANT RoundRefines
INVARIANT Tight
CHECK_DEADLOCK FALSE
