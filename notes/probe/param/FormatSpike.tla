---- MODULE FormatSpike ----
\* C07/C11 spike: canonical text and Display with precision/width/fill/align/sign/zero flags,
\* on sequences of code points, over BigInt ; validated on recorded outputs of the crate.
EXTENDS BigDom, Json, IOUtils, Sequences, TLC
One == BLit(1)
Two == BLit(2)
RoundQ(n, d, mode) ==
  LET qr == BFloorDivMod(n, d)  fl == qr[1]  r == qr[2]  up == BAdd(fl, One)
      tz == IF n.s >= 0 THEN fl ELSE up   az == IF n.s >= 0 THEN up ELSE fl
      h == BCmp(BMul(Two, r), d)   nearest(tie) == IF h > 0 THEN up ELSE IF h < 0 THEN fl ELSE tie
  IN IF r.s = 0 THEN fl ELSE
     CASE mode = "RoundFloor" -> fl [] mode = "RoundCeiling" -> up [] mode = "RoundDown" -> tz [] mode = "RoundUp" -> az
       [] mode = "RoundHalfUp" -> nearest(az) [] mode = "RoundHalfDown" -> nearest(tz)
       [] mode = "RoundHalfEven" -> nearest(IF BIsEven(fl) THEN fl ELSE up)
       [] mode = "Round05Up" -> IF BMod5Is0(tz) THEN az ELSE tz
\* decimal digits (most significant first) of a magnitude in base-10^4 limbs
Limb4(x) == <<x \div 1000, (x \div 100) % 10, (x \div 10) % 10, x % 10>>
RECURSIVE StripLead(_)
StripLead(ds) == IF Len(ds) > 1 /\ ds[1] = 0 THEN StripLead(Tail(ds)) ELSE ds
RECURSIVE AllDigits(_,_)
AllDigits(m, i) == IF i = 0 THEN <<>> ELSE Limb4(m[i]) \o AllDigits(m, i-1)
DigitsOf(m) == IF m = <<>> THEN <<0>> ELSE StripLead(AllDigits(m, Len(m)))
Zeros(k) == [i \in 1..k |-> 0]
Codes(ds) == [i \in 1..Len(ds) |-> 48 + ds[i]]
\* "<int>[.<P digits>]" for magnitude m interpreted with P fractional digits
Body(m, P) ==
  LET ds0 == DigitsOf(m)
      ds == IF Len(ds0) < P + 1 THEN Zeros(P + 1 - Len(ds0)) \o ds0 ELSE ds0
      k == Len(ds) - P
  IN IF P = 0 THEN Codes(ds) ELSE Codes(SubSeq(ds, 1, k)) \o <<46>> \o Codes(SubSeq(ds, k+1, Len(ds)))
Canon(c, f) == (IF c.s < 0 THEN <<45>> ELSE <<>>) \o Body(c.m, f)
Fill(ch, k) == [i \in 1..k |-> ch]
\* Rust's Formatter::pad_integral
Pad(nonneg, body, hasW, w, fill, align, plus, zero) ==
  LET sg == IF ~nonneg THEN <<45>> ELSE IF plus THEN <<43>> ELSE <<>>
      n == Len(body) + Len(sg)
      k == w - n
  IN IF ~hasW \/ n >= w THEN sg \o body
     ELSE IF zero THEN sg \o Fill(48, k) \o body
     ELSE IF align = "<" THEN sg \o body \o Fill(fill, k)
     ELSE IF align = "^" THEN Fill(fill, k \div 2) \o sg \o body \o Fill(fill, (k + 1) \div 2)
     ELSE Fill(fill, k) \o sg \o body
Display(c, f, mode, hasP, p, hasW, w, fill, align, plus, zero) ==
  LET P == IF ~hasP THEN f ELSE IF p > 18 THEN 18 ELSE p
      mag == IF P >= f THEN BMul(BAbs(c), BPow10(P - f)).m ELSE RoundQ(c, BPow10(f - P), mode).m
  IN Pad(c.s >= 0, Body(mag, P), hasW, w, fill, align, plus, zero)
T == <<  \* the 13 flag templates of the probe (index 4..16 of its output list)
  [hasP |-> TRUE,  hasW |-> FALSE, fill |-> 32,  align |-> ">", plus |-> FALSE, zero |-> FALSE],
  [hasP |-> FALSE, hasW |-> TRUE,  fill |-> 32,  align |-> ">", plus |-> FALSE, zero |-> FALSE],
  [hasP |-> TRUE,  hasW |-> TRUE,  fill |-> 32,  align |-> ">", plus |-> FALSE, zero |-> FALSE],
  [hasP |-> TRUE,  hasW |-> TRUE,  fill |-> 32,  align |-> "<", plus |-> FALSE, zero |-> FALSE],
  [hasP |-> TRUE,  hasW |-> TRUE,  fill |-> 32,  align |-> "^", plus |-> FALSE, zero |-> FALSE],
  [hasP |-> TRUE,  hasW |-> TRUE,  fill |-> 32,  align |-> ">", plus |-> FALSE, zero |-> FALSE],
  [hasP |-> TRUE,  hasW |-> TRUE,  fill |-> 32,  align |-> ">", plus |-> FALSE, zero |-> TRUE],
  [hasP |-> TRUE,  hasW |-> TRUE,  fill |-> 32,  align |-> ">", plus |-> TRUE,  zero |-> FALSE],
  [hasP |-> TRUE,  hasW |-> TRUE,  fill |-> 32,  align |-> ">", plus |-> TRUE,  zero |-> TRUE],
  [hasP |-> TRUE,  hasW |-> TRUE,  fill |-> 42,  align |-> "<", plus |-> FALSE, zero |-> FALSE],
  [hasP |-> TRUE,  hasW |-> TRUE,  fill |-> 233, align |-> "^", plus |-> FALSE, zero |-> FALSE],
  [hasP |-> TRUE,  hasW |-> TRUE,  fill |-> 35,  align |-> ">", plus |-> TRUE,  zero |-> FALSE],
  [hasP |-> TRUE,  hasW |-> TRUE,  fill |-> 32,  align |-> "<", plus |-> FALSE, zero |-> TRUE] >>
Rec == ndJsonDeserialize(IOEnv.TRACE)
VARIABLES l, bad
Init == l = 1 /\ bad = <<>>
Next == /\ l <= Len(Rec)
        /\ LET e == Rec[l]  c == Mk(e.c.s, e.c.m)  cn == Canon(c, e.f)
               ok == /\ e.outs[1] = cn /\ e.outs[2] = cn /\ e.outs[3] = <<68,101,99,33,40>> \o cn \o <<41>>
                     /\ \A i \in 1..13 : e.outs[3+i] = Display(c, e.f, e.mode, T[i].hasP, e.p, T[i].hasW, e.w, T[i].fill, T[i].align, T[i].plus, T[i].zero)
           IN bad' = IF ok THEN bad ELSE Append(bad, l)
        /\ l' = l + 1
Spec == Init /\ [][Next]_<<l, bad>>
Report == l <= Len(Rec) \/ PrintT(<<"RESULT", Len(Rec), "bad", bad>>)
====
