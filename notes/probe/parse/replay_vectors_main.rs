use fpdec::*;
use std::str::FromStr;
use std::io::{BufRead, BufReader};
fn main() {
    let f = std::fs::File::open(std::env::args().nth(1).unwrap()).unwrap();
    let (mut n, mut bad) = (0u64, 0u64);
    let mut classes: std::collections::BTreeMap<String, (u64, String)> = Default::default();
    for line in BufReader::new(f).lines() {
        let v: serde_json::Value = serde_json::from_str(&line.unwrap()).unwrap();
        let bytes: Vec<u8> = v["s"].as_array().unwrap().iter().map(|b| b.as_u64().unwrap() as u8).collect();
        let exp = &v["exp"];
        n += 1;
        let Ok(s) = std::str::from_utf8(&bytes) else { continue };   // invalid UTF-8 cannot be passed as &str
        let got = match Decimal::from_str(s) {
            Ok(d) => format!("ok {} {}", d.coefficient(), d.n_frac_digits()),
            Err(ParseDecimalError::Empty) => "empty".to_string(),
            Err(_) => "err".to_string() };
        let want = match exp["k"].as_str().unwrap() { "ok" => format!("ok {} {}", exp["c"], exp["f"]), k => k.to_string() };
        if got != want { bad += 1; let key = format!("want {} got {}", want.split(' ').next().unwrap(), got.split(' ').next().unwrap()); let e = classes.entry(key).or_insert((0, s.to_string())); e.0 += 1; }
    }
    println!("vectors {n} mismatches {bad}");
    for (k, (c, ex)) in classes { println!("  {k}: {c}  e.g. {ex:?}"); }
}
