INIT Init
NEXT Next
CONSTANTS W = 3
 Variant = "ok"
INVARIANT Correct
CHECK_DEADLOCK FALSE
