SPECIFICATION Spec
CONSTANTS NThreads = 3
 ModesUsed = {"RoundHalfEven", "RoundHalfUp", "RoundDown"}
 MaxDepth = 5
 Variant = "inherit"
 EmitSchedules = FALSE
INVARIANT Isolation
PROPERTY ModeIsolation
CHECK_DEADLOCK FALSE
