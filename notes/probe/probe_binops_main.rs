use fpdec::*;
use std::panic;
struct Rng(u64);
impl Rng { fn next(&mut self) -> u64 { self.0 ^= self.0 << 13; self.0 ^= self.0 >> 7; self.0 ^= self.0 << 17; self.0 }
 fn u128(&mut self) -> u128 { ((self.next() as u128) << 64) | self.next() as u128 }
 fn coeff(&mut self) -> i128 {
    let k = self.next() % 10;
    let mut c: i128 = match k {
        0 => (self.next() % 200) as i128,
        1 => 10_i128.pow((self.next() % 39) as u32) + (self.next() % 3) as i128 - 1,
        2 => i128::MAX - (self.next() % 3) as i128,
        3 => (i128::MAX / 10_i128.pow((self.next() % 20) as u32)).saturating_add((self.next() % 3) as i128 - 1),
        4 => (1_i128 << (self.next() % 127)) + (self.next() % 3) as i128 - 1,
        5 => 5 * 10_i128.pow((self.next() % 38) as u32),
        6 => ((self.next() % 1000) as i128) * 10_i128.pow((self.next() % 36) as u32),
        _ => { let bits = (self.next() % 127) as u32 + 1; (self.u128() >> (128 - bits)) as i128 }
    };
    if c == i128::MIN { c = 0 }
    if self.next() & 1 == 1 { c = -c; }
    c }
}
fn out<T>(f: impl FnOnce() -> T + panic::UnwindSafe, fmt: impl Fn(T) -> String) -> String {
    match panic::catch_unwind(f) { Ok(v) => fmt(v), Err(_) => "panic".to_string() }
}
fn ds(d: Decimal) -> String { format!("{}:{}", d.coefficient(), d.n_frac_digits()) }
fn os(d: Option<Decimal>) -> String { match d { Some(d) => ds(d), None => "none".into() } }
const MODES: [RoundingMode; 8] = [RoundingMode::Round05Up, RoundingMode::RoundCeiling, RoundingMode::RoundDown, RoundingMode::RoundFloor, RoundingMode::RoundHalfDown, RoundingMode::RoundHalfEven, RoundingMode::RoundHalfUp, RoundingMode::RoundUp];
fn main() {
    panic::set_hook(Box::new(|_| {}));
    let mut r = Rng(0x1234567887654321);
    let n_iter: usize = std::env::args().nth(1).map(|s| s.parse().unwrap()).unwrap_or(100000);
    for _ in 0..n_iter {
        let (xc, yc) = (r.coeff(), r.coeff());
        let (p, q) = ((r.next() % 19) as u8, (r.next() % 19) as u8);
        let (p, q) = if r.next() % 4 == 0 { (p, p) } else { (p, q) };
        let x = Decimal::new_raw(xc, p); let y = Decimal::new_raw(yc, q);
        let mi = (r.next() % 8) as usize; RoundingMode::set_default(MODES[mi]);
        let n = (r.next() % 19) as u8; let ni = (r.next() % 64) as i8 - 44;
        println!("B {xc} {p} {yc} {q} {mi} {n} {ni} add={} sub={} cadd={} csub={} mul={} cmul={} div={} cdiv={} rem={} crem={} divr={} mulr={} quant={} round={} cround={} cmp={} eq={}",
            out(move || x + y, ds), out(move || x - y, ds), out(move || x.checked_add(y), os), out(move || x.checked_sub(y), os),
            out(move || x * y, ds), out(move || x.checked_mul(y), os), out(move || x / y, ds), out(move || x.checked_div(y), os),
            out(move || x % y, ds), out(move || x.checked_rem(y), os),
            out(move || x.div_rounded(y, n), ds), out(move || x.mul_rounded(y, n), ds), out(move || x.quantize(y), ds),
            out(move || x.round(ni), ds), out(move || x.checked_round(ni), os),
            out(move || x.partial_cmp(&y), |o| format!("{:?}", o)), out(move || x == y, |b| b.to_string()));
    }
}
