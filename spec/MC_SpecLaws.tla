---------------------------- MODULE MC_SpecLaws ----------------------------
(* The oracle is checked against itself before it judges the code:            *)
(* RoundQ (FpDec.tla, operational: floor quotient + case analysis) must agree *)
(* with a second, purely declarative characterisation of the eight modes;     *)
(* CmpVal must be a total order compatible with equality of reduced fractions;*)
(* the algebraic laws the property statements mention must hold between the   *)
(* operation predicates (trunc + fract = d, x = y*t + r, floor <= d < floor+1).*)
(* Native integers, miniature constants (7-bit coefficients, 2 fractional     *)
(* digits): every intermediate fits 31 bits.                                  *)
EXTENDS NatInt, TLC, FiniteSets
S == INSTANCE FpDec WITH ZAdd <- IAdd, ZSub <- ISub, ZMul <- IMul, ZCmp <- ICmp, ZFloorDivMod <- IFloorDivMod, ZLit <- ILit,
       ZNeg <- INeg, ZAbs <- IAbs, ZSign <- ISign, ZIsEven <- IIsEven, ZMod5Is0 <- IMod5Is0, ZPow10 <- IPow10, ZPow2 <- IPow2,
       ZDigits <- IDigits, MaxFrac <- 2, CoeffBits <- 7, CoeffMax <- 127, CoeffMin <- -128, MaxDigits <- 3
CONSTANTS NMax, DMax
VARIABLES n, d
Init == n \in (0 - NMax)..NMax /\ d = 0
Next == d = 0 /\ d' \in 1..DMax /\ UNCHANGED n
Abs(z) == IF z < 0 THEN 0 - z ELSE z

\* ---- declarative characterisation of rounding n/d (d > 0) to an integer q ----
Dist(q) == Abs(n - q*d)                    \* |n/d - q| * d
Cands == {n \div d, (n \div d) + 1}
IsNearest(q) == \A q2 \in Cands : Dist(q) <= Dist(q2)
Tie == 2 * (n % d) = d
Declarative(q, mode) ==
  /\ q \in Cands /\ (n % d = 0 => q = n \div d)
  /\ CASE mode = "RoundCeiling" -> q*d >= n /\ (q-1)*d < n                       \* least integer >= n/d
       [] mode = "RoundFloor" -> q*d <= n /\ (q+1)*d > n                          \* greatest integer <= n/d
       [] mode = "RoundDown" -> Abs(q*d) <= Abs(n) /\ Abs(n) - Abs(q*d) < d       \* towards zero
       [] mode = "RoundUp" -> Abs(q*d) >= Abs(n) /\ Abs(q*d) - Abs(n) < d         \* away from zero
       [] mode = "RoundHalfUp" -> IsNearest(q) /\ (Tie => Abs(q) = (Abs(n) \div d) + 1)
       [] mode = "RoundHalfDown" -> IsNearest(q) /\ (Tie => Abs(q) = Abs(n) \div d)
       [] mode = "RoundHalfEven" -> IsNearest(q) /\ (Tie => q % 2 = 0)
       [] mode = "Round05Up" -> \* Python decimal: round towards zero, then away if the last kept digit is 0 or 5
            LET tz == IF n >= 0 THEN Abs(n) \div d ELSE 0 - (Abs(n) \div d) IN
            IF n % d # 0 /\ (Abs(tz) % 10) \in {0, 5} THEN Abs(q) = Abs(tz) + 1 /\ (q >= 0 <=> n >= 0) ELSE q = tz
RoundLaws == d = 0 \/ \A mode \in S!Modes :
   /\ Declarative(S!RoundQ(n, d, mode), mode)
   /\ S!RoundQS(0 - n, 0 - d, mode) = S!RoundQ(n, d, mode)                      \* sign-normalised divisor
   /\ S!RoundQ(0 - n, d, mode) = 0 - S!RoundQ(n, d, CASE mode = "RoundCeiling" -> "RoundFloor" [] mode = "RoundFloor" -> "RoundCeiling" [] OTHER -> mode)

\* AP_Round.tla carries a native copy of RoundQ for Apalache (symbolic n: the laws above for EVERY integer numerator);
\* the copy must be the oracle's function
AP == INSTANCE AP_Round
NativeCopy == d = 0 \/ \A mode \in S!Modes : AP!RoundQ(n, d, mode) = S!RoundQ(n, d, mode)

\* ---- laws between the operation predicates on the miniature Decimal domain ----
Scales == 0..2
X(f) == [c |-> n, f |-> f]                 \* n doubles as a coefficient, |n| <= 127 is enforced by the config
UnaryLaws == d # 0 \/ (Abs(n) > 127) \/ \A f \in Scales :
   LET x == X(f)  p == 10^f  fl == S!FloorVal(x)  ce == S!CeilVal(x)  tr == S!TruncVal(x)  fr == S!FractCoeff(x) IN
   /\ fl*p <= n /\ n < (fl+1)*p                       \* floor(d) <= d < floor(d)+1
   /\ (ce-1)*p < n /\ n <= ce*p                       \* ceil(d)-1 < d <= ceil(d)
   /\ tr*p + fr = n /\ Abs(fr) < p /\ (fr = 0 \/ (fr > 0 <=> n > 0)) /\ Abs(tr*p) <= Abs(n)
   /\ (n # 0 => 10^(S!MagnitudeVal(x) + f) <= Abs(n) /\ Abs(n) < 10^(S!MagnitudeVal(x) + f + 1))
   /\ (n = 0 => S!MagnitudeVal(x) = 0)
   /\ LET r == S!Ratio(x) IN r[2] > 0 /\ r[1]*p = n*r[2] /\ (\A g \in 2..p : ~(r[1] % g = 0 /\ r[2] % g = 0))
\* remainder: x = y*t + r, |r| < |y|, r = 0 or sign of x ; CmpVal is the order of exact values
BinaryLaws == d = 0 \/ Abs(n) > 127 \/ \A f \in Scales, g \in Scales, yc \in {0 - d, d} :
   LET x == X(f)  y == [c |-> yc, f |-> g]  rm == S!RemValue(x, y)  m == rm[2]
       a == n * 10^(m - f)  b == yc * 10^(m - g)  r == rm[1] IN
   /\ (a - r) % Abs(b) = 0 /\ Abs(r) < Abs(b) /\ (r = 0 \/ (r > 0 <=> n > 0))
   /\ S!CmpVal(x, y) = ICmp(n * 10^g, yc * 10^f)
   /\ S!CmpVal(x, y) = 0 - S!CmpVal(y, x)
   /\ (S!CmpVal(x, y) = 0 <=> S!Ratio(x) = S!Ratio(y))
=======================================================================
