INIT Init
NEXT Next
CONSTANTS CMax = 1500
 MaxFracP = 2
 Variant = "ok"
INVARIANTS StringRefines DisplayRefines
CHECK_DEADLOCK FALSE
