INIT Init
NEXT Next
CONSTANTS Variant = "ladder16"
 Part = "ladder"
INVARIANTS SmallCorrect LadderCorrect
CHECK_DEADLOCK FALSE
