---------------------------- MODULE MC_Log10 ----------------------------
(* C15 (magnitude) / C13 (approx_rational's digit budget), design level, FULL *)
(* SIZE: the branch-free decimal logarithm of fpdec-core/src/lib.rs.          *)
(*   u8(val)        = ((val + 758) & (val + 412)) >> 8                         *)
(*   less_than_5(v) = (((v+C1) & (v+C2)) ^ ((v+C3) & (v+C4))) >> 17, v < 10^5  *)
(*   u32 / u64 / u128: threshold ladder (10^5, 10^10, 10^16, 10^32) that       *)
(*     divides and adds 5 / 10 / 16 / 32 before calling the next narrower one  *)
(*   i128_magnitude(i) = u128(|i|);  Decimal::magnitude = that - n_frac_digits *)
(* Checked: the two bit tricks for EVERY argument of their domain (256 and     *)
(* 100 000 values, bitwise operators of the CommunityModules), the ladder on   *)
(* BigInt for every power of ten and of two with both neighbours up to 2^127   *)
(* and every threshold of the ladder +-1, against the digit count of BigInt    *)
(* (the definition FpDec!MagnitudeVal uses).                                   *)
(* Variants (negative controls): "c4" (last constant of less_than_5 off by     *)
(* one), "ladder16" (the 10^16 rung adds 15).                                  *)
EXTENDS BigInt, Bitwise, TLC
CONSTANTS Variant, Part     \* Part: "small" (bit tricks, every argument) | "ladder" (BigInt points)

U8(val) == ((val + 758) & (val + 412)) \div 256
C1 == 393216 - 10
C2 == 524288 - 100
C3 == 917504 - 1000
C4 == IF Variant = "c4" THEN 524288 - 10001 ELSE 524288 - 10000
LessThan5(v) == (((v + C1) & (v + C2)) ^^ ((v + C3) & (v + C4))) \div 131072
RECURSIVE Log10N(_)
Log10N(v) == IF v < 10 THEN 0 ELSE 1 + Log10N(v \div 10)

\* the ladder on BigInt magnitudes; the narrow tails are native once the value is below 10^5
NatOf(b) == IF b.s = 0 THEN 0 ELSE IF Len(b.m) = 1 THEN b.m[1] ELSE b.m[1] + 10000 * b.m[2]
Ge(v, k) == BCmp(v, BPow10(k)) >= 0
Div(v, k) == BFloorDivMod(v, BPow10(k))[1]
U32(v) == IF Ge(v, 5) THEN 5 + LessThan5(NatOf(Div(v, 5))) ELSE LessThan5(NatOf(v))
U64(v) == LET a == IF Ge(v, 10) THEN <<Div(v, 10), 10>> ELSE <<v, 0>>
              b == IF Ge(a[1], 5) THEN <<Div(a[1], 5), a[2] + 5>> ELSE a
          IN b[2] + LessThan5(NatOf(b[1]))
U128(v) == IF Ge(v, 32) THEN 32 + U32(Div(v, 32))
           ELSE LET a == IF Ge(v, 16) THEN <<Div(v, 16), IF Variant = "ladder16" THEN 15 ELSE 16>> ELSE <<v, 0>>
                IN a[2] + U64(a[1])

Points == {BPow10(k) : k \in 0..38} \cup {BSub(BPow10(k), BLit(1)) : k \in 1..38} \cup {BAdd(BPow10(k), BLit(1)) : k \in 0..37}
          \cup {BPow2(k) : k \in 0..126} \cup {BSub(BPow2(k), BLit(1)) : k \in 1..127} \cup {BAdd(BPow2(k), BLit(1)) : k \in 0..126}
          \cup {BMul(BLit(d), BPow10(k)) : d \in {2, 5, 9}, k \in 0..37}

VARIABLES v
Init == IF Part = "small" THEN v \in 0..99999 ELSE v \in Points
Next == UNCHANGED v
SmallCorrect == Part # "small" \/ (/\ (v > 0 => LessThan5(v) = Log10N(v))
                                   /\ LessThan5(0) = 0
                                   /\ (v < 256 /\ v > 0 => U8(v) = Log10N(v)))
LadderCorrect == Part # "ladder" \/ U128(v) = BDigits(v) - 1
=======================================================================
