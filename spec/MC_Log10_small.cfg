INIT Init
NEXT Next
CONSTANTS Variant = "ok"
 Part = "small"
INVARIANTS SmallCorrect LadderCorrect
CHECK_DEADLOCK FALSE
