SPECIFICATION Spec
CONSTANTS Kind = "ints"
 NMax = 60
 DMax = 0
 LMax = 0
 ScaleSet = {0}
INVARIANT Emit
CHECK_DEADLOCK FALSE
