INIT Init
NEXT Next
CONSTANTS W = 3
 Variant = "f1"
INVARIANT Correct
CHECK_DEADLOCK FALSE
