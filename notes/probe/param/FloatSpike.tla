---- MODULE FloatSpike ----
\* C12 spike: Decimal -> binary float, nearest / ties-to-even, on exact rationals (BigInt)
EXTENDS BigDom, Json, IOUtils, Sequences, TLC
One == BLit(1)
Two == BLit(2)
Abs(a) == BAbs(a)
\* largest e in lo..hi with 2^e * den <= num   (num, den > 0), by bisection ; e may be negative
Scaled(num, den, e) == IF e >= 0 THEN BCmp(BMul(BPow2(e), den), num) <= 0 ELSE BCmp(den, BMul(BPow2(-e), num)) <= 0
RECURSIVE FindE(_,_,_,_)
FindE(num, den, lo, hi) == IF lo = hi THEN lo ELSE
   LET mid == (lo + hi + 1) \div 2 IN IF Scaled(num, den, mid) THEN FindE(num, den, mid, hi) ELSE FindE(num, den, lo, mid - 1)
RoundHalfEven(n, d) == LET qr == BFloorDivMod(n, d)  h == BCmp(BMul(Two, qr[2]), d) IN
   IF h > 0 \/ (h = 0 /\ ~BIsEven(qr[1])) THEN BAdd(qr[1], One) ELSE qr[1]
\* result: [sign, bexp, frac] ; FB fraction bits, Bias exponent bias
ToFloat(c, f, FB, Bias) ==
  IF c.s = 0 THEN [sign |-> 0, bexp |-> 0, frac |-> Z0] ELSE
  LET num == Abs(c)  den == BPow10(f)
      e == FindE(num, den, -70, 130)
      sh == FB - e
      m0 == IF sh >= 0 THEN RoundHalfEven(BMul(num, BPow2(sh)), den) ELSE RoundHalfEven(num, BMul(den, BPow2(-sh)))
      carry == BCmp(m0, BPow2(FB + 1)) = 0
      m == IF carry THEN BPow2(FB) ELSE m0
      e2 == IF carry THEN e + 1 ELSE e
  IN [sign |-> IF c.s < 0 THEN 1 ELSE 0, bexp |-> e2 + Bias, frac |-> BSub(m, BPow2(FB))]
Rec == ndJsonDeserialize(IOEnv.TRACE)
VARIABLES l, bad
Init == l = 1 /\ bad = <<>>
Next == /\ l <= Len(Rec)
        /\ LET e == Rec[l]  c == Mk(e.c.s, e.c.m)
               x64 == ToFloat(c, e.f, 52, 1023)  x32 == ToFloat(c, e.f, 23, 127)
               ok == /\ x64.sign = e.d64.sign /\ x64.bexp = e.d64.bexp /\ x64.frac = Mk(IF e.d64.frac = <<>> THEN 0 ELSE 1, e.d64.frac)
                     /\ x32.sign = e.d32.sign /\ x32.bexp = e.d32.bexp /\ x32.frac = Mk(IF e.d32.frac = <<>> THEN 0 ELSE 1, e.d32.frac)
           IN bad' = IF ok THEN bad ELSE Append(bad, l)
        /\ l' = l + 1
Spec == Init /\ [][Next]_<<l, bad>>
Report == l <= Len(Rec) \/ PrintT(<<"RESULT", Len(Rec), "bad", bad>>)
====
