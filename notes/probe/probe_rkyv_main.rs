use fpdec::*;
use rkyv::Deserialize;
struct Rng(u64);
impl Rng { fn next(&mut self) -> u64 { self.0 ^= self.0 << 13; self.0 ^= self.0 >> 7; self.0 ^= self.0 << 17; self.0 }
 fn u128(&mut self) -> u128 { ((self.next() as u128) << 64) | self.next() as u128 } }
fn gen(r: &mut Rng) -> Decimal {
    let bits = (r.next() % 127) as u32 + 1; let mut c = (r.u128() >> (128 - bits)) as i128;
    match r.next() % 5 { 0 => c = (r.next() % 50) as i128, 1 => c = 10_i128.pow((r.next() % 38) as u32), 2 => c = i128::MAX - (r.next() % 2) as i128, _ => {} }
    if r.next() & 1 == 1 { c = -c; }
    Decimal::new_raw(c, (r.next() % 19) as u8)
}
fn main() {
    let mut r = Rng(0xABCDEF0123456789);
    let (mut n, mut bad) = (0u64, 0u64);
    for _ in 0..200000 {
        let (a, b) = (gen(&mut r), gen(&mut r));
        let ba = rkyv::to_bytes::<_, 256>(&a).unwrap(); let bb = rkyv::to_bytes::<_, 256>(&b).unwrap();
        let aa = rkyv::check_archived_root::<Decimal>(&ba[..]).unwrap(); let ab = rkyv::check_archived_root::<Decimal>(&bb[..]).unwrap();
        let da: Decimal = aa.deserialize(&mut rkyv::Infallible).unwrap();
        n += 1;
        let ok = da.coefficient() == a.coefficient() && da.n_frac_digits() == a.n_frac_digits()
            && (aa == ab) == (a == b) && aa.partial_cmp(ab) == a.partial_cmp(&b) && (*aa == b) == (a == b) && (a == *ab) == (a == b)
            && aa.partial_cmp(&b) == a.partial_cmp(&b) && a.partial_cmp(ab) == a.partial_cmp(&b) && aa.cmp(ab) == a.cmp(&b);
        if !ok { bad += 1; if bad < 5 { println!("BAD {:?} {:?}", a, b); } }
    }
    println!("rkyv pairs {n} bad {bad} (packed={})", cfg!(feature = "packed"));
}
