---- MODULE NatDom ----
EXTENDS Integers
NAdd(a,b) == a + b
NSub(a,b) == a - b
NMul(a,b) == a * b
NCmp(a,b) == IF a < b THEN -1 ELSE IF a > b THEN 1 ELSE 0
NFloorDivMod(n,d) == <<n \div d, n % d>>     \* TLC: floor semantics for d > 0
NLit(n) == n
NNeg(a) == -a
NSign(a) == IF a < 0 THEN -1 ELSE IF a > 0 THEN 1 ELSE 0
NIsEven(a) == a % 2 = 0
NMod5Is0(a) == a % 5 = 0
NPow10(k) == 10^k
NPow2(k) == 2^k
====
