CONSTANTS Threads = {t1, t2, t3}
 ModesUsed = {"HalfEven", "HalfUp", "Down"}
 MaxDepth = 5
 GlobalBug = FALSE
SPECIFICATION Spec
INVARIANT Isolation
INVARIANT Emit
CHECK_DEADLOCK FALSE
