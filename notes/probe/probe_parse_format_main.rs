use fpdec::*;
use std::str::FromStr;
use std::convert::TryFrom;
struct Rng(u64);
impl Rng { fn next(&mut self) -> u64 { self.0 ^= self.0 << 13; self.0 ^= self.0 >> 7; self.0 ^= self.0 << 17; self.0 }
 fn u128(&mut self) -> u128 { ((self.next() as u128) << 64) | self.next() as u128 } }
const MODES: [RoundingMode; 8] = [RoundingMode::Round05Up, RoundingMode::RoundCeiling, RoundingMode::RoundDown, RoundingMode::RoundFloor, RoundingMode::RoundHalfDown, RoundingMode::RoundHalfEven, RoundingMode::RoundHalfUp, RoundingMode::RoundUp];
fn hex(s: &str) -> String { s.bytes().map(|b| format!("{:02x}", b)).collect() }
fn main() {
    let mut r = Rng(0xDEADBEEFCAFEF00D);
    // parse: random strings over a class alphabet
    let alpha: Vec<&str> = vec!["0","0","1","5","9",".","e","E","+","-"," ","x","_","é"];
    for _ in 0..300000 {
        let len = (r.next() % 9) as usize;
        let s: String = (0..len).map(|_| alpha[(r.next() % alpha.len() as u64) as usize]).collect();
        match Decimal::from_str(&s) { Ok(d) => println!("P {} ok {} {}", hex(&s), d.coefficient(), d.n_frac_digits()), Err(e) => println!("P {} err {:?}", hex(&s), e) }
    }
    // parse: well-formed with long digit strings
    for _ in 0..200000 {
        let nd = (r.next() % 45) as usize + 1;
        let mut digs: String = (0..nd).map(|_| char::from(b'0' + (r.next() % 10) as u8)).collect();
        if r.next() % 3 == 0 { // near boundaries
            let base: u128 = match r.next() % 4 { 0 => i128::MAX as u128, 1 => u128::MAX, 2 => 10u128.pow(38), _ => (i128::MAX as u128) / 10u128.pow((r.next()%20) as u32) };
            let v = base.wrapping_add((r.next() % 5) as u128).wrapping_sub(2);
            digs = v.to_string();
            if r.next() % 4 == 0 { // add multiples of 2^128 via python later: just prefix digit
                digs = format!("{}{}", r.next() % 10, digs);
            }
        }
        let fl = if r.next() % 2 == 0 { 0 } else { (r.next() % (digs.len() as u64 + 1)) as usize };
        let (ip, fp) = digs.split_at(digs.len() - fl);
        let sign = ["", "+", "-"][(r.next() % 3) as usize];
        let mut s = format!("{sign}{ip}");
        if fl > 0 || r.next() % 5 == 0 { s.push('.'); s.push_str(fp); }
        if r.next() % 2 == 0 {
            let e = (r.next() % 60) as i64 - 30;
            let ez = ["", "0", "00"][(r.next() % 3) as usize];
            let es = if e < 0 { format!("-{ez}{}", -e) } else { format!("{}{ez}{}", ["", "+"][(r.next()%2) as usize], e) };
            s.push_str(&format!("{}{}", ["e","E"][(r.next()%2) as usize], es));
        }
        match Decimal::from_str(&s) { Ok(d) => println!("P {} ok {} {}", hex(&s), d.coefficient(), d.n_frac_digits()), Err(e) => println!("P {} err {:?}", hex(&s), e) }
    }
    // format
    for _ in 0..200000 {
        let bits = (r.next() % 127) as u32 + 1;
        let mut c = (r.u128() >> (128 - bits)) as i128;
        if r.next() % 4 == 0 { c = (r.next() % 2000) as i128; }
        if r.next() % 6 == 0 { c = 10_i128.pow((r.next() % 38) as u32) - (r.next() % 2) as i128; }
        if r.next() & 1 == 1 { c = -c; }
        let s = (r.next() % 19) as u8;
        let d = Decimal::new_raw(c, s);
        let mi = (r.next() % 8) as usize; RoundingMode::set_default(MODES[mi]);
        let w = (r.next() % 45) as usize; let p = (r.next() % 25) as usize;
        let outs = vec![
            format!("{}", d), String::from(d), format!("{:?}", d),
            format!("{:.p$}", d, p = p), format!("{:w$}", d, w = w), format!("{:w$.p$}", d, w = w, p = p),
            format!("{:<w$.p$}", d, w = w, p = p), format!("{:^w$.p$}", d, w = w, p = p), format!("{:>w$.p$}", d, w = w, p = p),
            format!("{:0w$.p$}", d, w = w, p = p), format!("{:+w$.p$}", d, w = w, p = p), format!("{:+0w$.p$}", d, w = w, p = p),
            format!("{:*<w$.p$}", d, w = w, p = p), format!("{:é^w$.p$}", d, w = w, p = p), format!("{:#>+w$.p$}", d, w = w, p = p), format!("{:<0w$.p$}", d, w = w, p = p),
        ];
        println!("D {c} {s} {mi} {w} {p} {}", outs.iter().map(|o| hex(o)).collect::<Vec<_>>().join(" "));
    }
    // into int
    for _ in 0..100000 {
        let which = r.next() % 10;
        let (lo, hi): (i128, i128) = match which { 0 => (0, u8::MAX as i128), 1 => (i8::MIN as i128, i8::MAX as i128), 2 => (0, u16::MAX as i128), 3 => (i16::MIN as i128, i16::MAX as i128), 4 => (0, u32::MAX as i128), 5 => (i32::MIN as i128, i32::MAX as i128), 6 => (0, u64::MAX as i128), 7 => (i64::MIN as i128, i64::MAX as i128), 8 => (i128::MIN+1, i128::MAX), _ => (0, i128::MAX) };
        let base = if r.next() & 1 == 0 { lo } else { hi };
        let v = base.saturating_add((r.next() % 5) as i128 - 2);
        let s = (r.next() % 19) as u8;
        let c = match v.checked_mul(10_i128.pow(s as u32)) { Some(c) => c.saturating_add(if r.next() % 4 == 0 { (r.next() % 3) as i128 - 1 } else { 0 }), None => v };
        let c = if c == i128::MIN { c + 1 } else { c };
        let d = Decimal::new_raw(c, s);
        let res = match which {
            0 => format!("{:?}", u8::try_from(d)), 1 => format!("{:?}", i8::try_from(d)), 2 => format!("{:?}", u16::try_from(d)), 3 => format!("{:?}", i16::try_from(d)),
            4 => format!("{:?}", u32::try_from(d)), 5 => format!("{:?}", i32::try_from(d)), 6 => format!("{:?}", u64::try_from(d)), 7 => format!("{:?}", i64::try_from(d)),
            8 => format!("{:?}", i128::try_from(d)), _ => format!("{:?}", u128::try_from(d)) };
        println!("I {which} {c} {s} {res}");
    }
}
