use fpdec::*;
use std::convert::TryFrom;
struct Rng(u64);
impl Rng { fn next(&mut self) -> u64 { self.0 ^= self.0 << 13; self.0 ^= self.0 >> 7; self.0 ^= self.0 << 17; self.0 }
 fn u128(&mut self) -> u128 { ((self.next() as u128) << 64) | self.next() as u128 } }
fn t64(f: f64) { match Decimal::try_from(f) { Ok(d) => println!("T64 {} ok {} {}", f.to_bits(), d.coefficient(), d.n_frac_digits()), Err(e) => println!("T64 {} err {:?}", f.to_bits(), e) } }
fn t32(g: f32) { match Decimal::try_from(g) { Ok(d) => println!("T32 {} ok {} {}", g.to_bits(), d.coefficient(), d.n_frac_digits()), Err(e) => println!("T32 {} err {:?}", g.to_bits(), e) } }
fn main() {
    let mut r = Rng(0x9E3779B97F4A7C15);
    let scale: usize = std::env::args().nth(1).map(|s| s.parse().unwrap()).unwrap_or(10);
    for _ in 0..(20000 * scale) {
        let bits = (r.next() % 127) as u32 + 1;
        let mut c = (r.u128() >> (128 - bits)) as i128;
        if r.next() & 1 == 1 { c = -c; }
        let s = (r.next() % 19) as u8;
        let d = Decimal::new_raw(c, s);
        println!("F {} {} {} {}", c, s, f64::from(d).to_bits(), f32::from(d).to_bits());
    }
    for _ in 0..(10000 * scale) {
        let m = (r.next() >> 11) | (1u64 << 52);
        let k = (r.next() % 19) as u32;
        let coeff = (2 * m as i128 + 1) * 5_i128.pow(k);
        for delta in [-1i128, 0, 1] {
            let d = Decimal::new_raw(coeff + delta, k as u8);
            println!("F {} {} {} {}", coeff + delta, k, f64::from(d).to_bits(), f32::from(d).to_bits());
        }
        let m32 = ((r.next() >> 40) | (1u64 << 23)) as i128;
        let coeff = (2 * m32 + 1) * 5_i128.pow(k);
        for delta in [-1i128, 0, 1] {
            let d = Decimal::new_raw(coeff + delta, k as u8);
            println!("F {} {} {} {}", coeff + delta, k, f64::from(d).to_bits(), f32::from(d).to_bits());
        }
    }
    for _ in 0..(20000 * scale) {
        let b = r.next();
        let f = f64::from_bits(b);
        let e = (r.next() % 200) as i64 - 100;
        let f2 = f64::from_bits((b & 0x800fffffffffffff) | (((1023 + e) as u64) << 52));
        t64(f); t64(f2);
        let g = f32::from_bits(r.next() as u32);
        let g2 = f32::from_bits(((b as u32) & 0x807fffff) | ((((127 + e/2) as u32) & 0xff) << 23));
        t32(g); t32(g2);
    }
    for _ in 0..(5000 * scale) {
        let k = 19 + (r.next() % 4) as i32;
        let odd = (r.next() >> (64 - (r.next() % 40 + 1))) | 1;
        let f = (odd as f64) * 2f64.powi(-k);
        t64(f); t64(-f);
    }
}
