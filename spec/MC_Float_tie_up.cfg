INIT Init
NEXT Next
CONSTANTS WB = 16
 FB = 3
 CMax = 4000
 MaxFracP = 2
 Variant = "tie_up"
 Dir = "into"
INVARIANT Correct
CHECK_DEADLOCK FALSE
