use fpdec::*;
use std::collections::hash_map::DefaultHasher;
use std::hash::{Hash, Hasher};
use std::panic;
struct Rng(u64);
impl Rng { fn next(&mut self) -> u64 { self.0 ^= self.0 << 13; self.0 ^= self.0 >> 7; self.0 ^= self.0 << 17; self.0 }
 fn u128(&mut self) -> u128 { ((self.next() as u128) << 64) | self.next() as u128 }
 fn coeff(&mut self) -> i128 {
    let k = self.next() % 10;
    let mut c: i128 = match k {
        0 => (self.next() % 200) as i128,
        1 => 10_i128.pow((self.next() % 39) as u32) + (self.next() % 3) as i128 - 1,
        2 => i128::MAX - (self.next() % 3) as i128,
        3 => (i128::MAX / 10_i128.pow((self.next() % 20) as u32)).saturating_add((self.next() % 3) as i128 - 1),
        4 => (1_i128 << (self.next() % 127)) + (self.next() % 3) as i128 - 1,
        5 => 5 * 10_i128.pow((self.next() % 38) as u32),
        6 => ((self.next() % 1000) as i128) * 10_i128.pow((self.next() % 36) as u32),
        _ => { let bits = (self.next() % 127) as u32 + 1; (self.u128() >> (128 - bits)) as i128 }
    };
    if c == i128::MIN { c = 0 }
    if self.next() & 1 == 1 { c = -c; }
    c }
}
fn h<T: Hash>(t: &T) -> u64 { let mut s = DefaultHasher::new(); t.hash(&mut s); s.finish() }
fn ds(d: Decimal) -> String { format!("{}:{}", d.coefficient(), d.n_frac_digits()) }
fn out<T>(f: impl FnOnce() -> T + panic::UnwindSafe, fmt: impl Fn(T) -> String) -> String {
    match panic::catch_unwind(f) { Ok(v) => fmt(v), Err(_) => "panic".to_string() } }
fn main() {
    panic::set_hook(Box::new(|_| {}));
    let mut r = Rng(0xA5A5A5A55A5A5A5A);
    for _ in 0..150000 {
        let c = r.coeff(); let s = (r.next() % 19) as u8; let d = Decimal::new_raw(c, s);
        let (n, dn) = d.as_integer_ratio();
        // an equal-valued other representation
        let k = (r.next() % 19) as u8;
        let alt = if k >= s { c.checked_mul(10_i128.pow((k - s) as u32)).map(|c2| Decimal::new_raw(c2, k)) } else { let p = 10_i128.pow((s - k) as u32); if c % p == 0 { Some(Decimal::new_raw(c / p, k)) } else { None } };
        let alt_s = match alt { Some(a) => format!("{} {} {}", ds(a), h(&a) == h(&d), a == d), None => "- - -".into() };
        println!("U {c} {s} floor={} ceil={} trunc={} fract={} abs={} neg={} mag={} z={} o={} ng={} ps={} hd={} hr={} alt={}",
            ds(d.floor()), ds(d.ceil()), ds(d.trunc()), ds(d.fract()), ds(d.abs()), ds(-d), d.magnitude(), d.eq_zero(), d.eq_one(), d.is_negative(), d.is_positive(),
            h(&d), h(&(n, dn)), alt_s);
        // int comparisons
        let i = match r.next() % 4 { 0 => (r.next() % 7) as i64 - 3, 1 => i64::MAX - (r.next() % 3) as i64, 2 => i64::MIN + (r.next() % 3) as i64, _ => ((c / 10_i128.pow(s as u32)).clamp(i64::MIN as i128, i64::MAX as i128) as i64).saturating_add((r.next() % 3) as i64 - 1) };
        let u = (i as u64) >> (r.next() % 64);
        println!("K {c} {s} {i} {u} {:?} {:?} {} {} {:?} {:?} {} {}", d.partial_cmp(&i), i.partial_cmp(&d), d == i, i == d, d.partial_cmp(&u), u.partial_cmp(&d), d == u, u == d);
        // wide primitives
        let (a, b) = (r.coeff(), r.coeff()); let m = { let m = r.coeff().abs(); if m == 0 { 1 } else { m } };
        let p = (r.next() % 39) as u8;
        println!("W {a} {b} {m} {p} {} {}",
            out(move || fpdec_core::i256_div_mod_floor(a, b, m), |o| format!("{:?}", o)),
            out(move || fpdec_core::i128_shifted_div_mod_floor(a, p, if b == 0 {1} else {b}), |o| format!("{:?}", o)));
    }
}
