---------------------------- MODULE MC_Format ----------------------------
(* C11 / C07, design level: a transcription of src/format.rs in miniature    *)
(* (coefficients up to CMax, MaxFracP fractional digits):                    *)
(*   String::from(d): integral values print the signed coefficient, others   *)
(*     "-"? int "." frac zero-padded to the scale;                           *)
(*   Display::fmt: precision = min(requested, MaxFrac) or the scale; the     *)
(*     scale-0 branch; the three-way comparison precision / scale with       *)
(*     "first round, then abs" in the Less branch and zero-extension in the  *)
(*     Greater branch; sign taken from the ORIGINAL coefficient and handed   *)
(*     to Formatter::pad_integral (FpText!Pad).                              *)
(* Checked for every value, precision, width and flag combination of the     *)
(* miniature domain against the declarative FpText!Display / Canon that      *)
(* Trace.tla applies to the crate.                                           *)
(* Variants (negative controls): "abs_first" (rounds the absolute value:     *)
(* seed C19-d), "trunc" (no rounding), "sign_after" (sign taken from the     *)
(* rounded value: "-0.4" at precision 0 would print "0" instead of "-0"),    *)
(* "no_clamp" (precision above MaxFrac not clamped).                         *)
EXTENDS BigInt, TLC
CONSTANTS CMax, MaxFracP, Variant

S == INSTANCE FpDec WITH ZAdd <- BAdd, ZSub <- BSub, ZMul <- BMul, ZCmp <- BCmp, ZFloorDivMod <- BFloorDivMod,
       ZLit <- BLit, ZNeg <- BNeg, ZAbs <- BAbs, ZSign <- BSign, ZIsEven <- BIsEven, ZMod5Is0 <- BMod5Is0,
       ZPow10 <- BPow10, ZPow2 <- BPow2, ZDigits <- BDigits, MaxFrac <- MaxFracP, CoeffBits <- 15,
       CoeffMax <- BLit(32767), CoeffMin <- BLit(-32768), MaxDigits <- 5
T == INSTANCE FpText WITH MaxFrac <- MaxFracP, CoeffBits <- 15

Abs(z) == IF z < 0 THEN 0 - z ELSE z
RECURSIVE Dig(_)
Dig(n) == IF n < 10 THEN <<48 + n>> ELSE Dig(n \div 10) \o <<48 + (n % 10)>>       \* n >= 0 in decimal
RECURSIVE ZPad(_,_)
ZPad(ds, w) == IF Len(ds) >= w THEN ds ELSE ZPad(<<48>> \o ds, w)                   \* {:0width$}
Native(b) == IF b.s = 0 THEN 0 ELSE b.s * (IF Len(b.m) = 1 THEN b.m[1] ELSE b.m[1] + 10000 * b.m[2])
\* i128_div_rounded with the thread mode (the oracle's rounding function on native integers)
DivRounded(c, d, mode) == IF Variant = "trunc" THEN (IF c < 0 THEN 0 - (Abs(c) \div d) ELSE c \div d)
                          ELSE Native(S!RoundQ(BLit(c), BLit(d), mode))

(* String::from(d) *)
ImplString(c, f) ==
  IF f = 0 THEN (IF c < 0 THEN <<45>> ELSE <<>>) \o Dig(Abs(c))
  ELSE LET int == Abs(c) \div 10^f  frac == Abs(c) % 10^f IN
       (IF c >= 0 THEN <<>> ELSE <<45>>) \o Dig(int) \o <<46>> \o ZPad(Dig(frac), f)

(* Display::fmt; <<nonneg, body>> as handed to pad_integral *)
ImplDisplay(c, f, hasP, p, mode) ==
  LET prec == IF hasP THEN (IF Variant = "no_clamp" \/ p < MaxFracP THEN p ELSE MaxFracP) ELSE f
      body ==
        IF f = 0 THEN (IF prec > 0 THEN Dig(Abs(c)) \o <<46>> \o ZPad(<<48>>, prec) ELSE Dig(Abs(c)))
        ELSE LET parts ==
                   IF prec = f THEN <<Abs(c) \div 10^f, Abs(c) % 10^f>>
                   ELSE IF prec < f
                   THEN LET q == IF Variant = "abs_first" THEN DivRounded(Abs(c), 10^(f - prec), mode)
                                 ELSE Abs(DivRounded(c, 10^(f - prec), mode)) IN
                        <<q \div 10^prec, q % 10^prec>>
                   ELSE <<Abs(c) \div 10^f, (Abs(c) % 10^f) * 10^(prec - f)>>
             IN IF prec > 0 THEN Dig(parts[1]) \o <<46>> \o ZPad(Dig(parts[2]), prec) ELSE Dig(parts[1])
      nonneg == IF Variant = "sign_after" /\ hasP /\ prec < f THEN DivRounded(c, 10^(f - prec), mode) >= 0 ELSE c >= 0
  IN <<nonneg, body>>

VARIABLES c, f, k
vars == <<c, f, k>>
Init == c \in (0 - CMax)..CMax /\ f \in 0..MaxFracP /\ k = 0
Next == UNCHANGED vars
StringRefines == ImplString(c, f) = T!Canon(BLit(c), f)
\* pad_integral is Rust's, not the crate's: both sides use FpText!Pad, so one plain and one padded flag set suffice
Flags == {<<FALSE, 0, ">", FALSE, FALSE>>, <<FALSE, 0, ">", TRUE, FALSE>>, <<TRUE, 9, "^", TRUE, FALSE>>, <<TRUE, 9, ">", FALSE, TRUE>>}
DisplayRefines ==
  \A mode \in S!Modes, hasP \in BOOLEAN, p \in 0..(MaxFracP + 2) :
    LET d == ImplDisplay(c, f, hasP, p, mode) IN
    \A fl \in Flags :
        T!Pad(d[1], d[2], fl[1], fl[2], 42, fl[3], fl[4], fl[5])
          = T!Display(S!RoundQ, BLit(c), f, mode, hasP, p, fl[1], fl[2], 42, fl[3], fl[4], fl[5])
=======================================================================
