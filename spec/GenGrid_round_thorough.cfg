SPECIFICATION Spec
CONSTANTS Kind = "round"
 NMax = 0
 DMax = 0
 LMax = 0
 ScaleSet = {0, 1, 9, 17, 18}
INVARIANT Emit
CHECK_DEADLOCK FALSE
