// Execute one call description against the real crate and fill in what was observed.
// A call description is the JSON event of spec/Trace.tla without its outcome fields.
use crate::enc::*;
use fpdec::*;
use num_traits::{Num, One, Signed, Zero};
use serde_json::{json, Value};
use std::collections::{BTreeSet, HashSet};
use std::convert::TryFrom;
use std::hash::{Hash, Hasher};
use std::panic::{catch_unwind, AssertUnwindSafe};
use std::str::FromStr;

pub const MODES: [(RoundingMode, &str); 8] = [
    (RoundingMode::Round05Up, "Round05Up"),
    (RoundingMode::RoundCeiling, "RoundCeiling"),
    (RoundingMode::RoundDown, "RoundDown"),
    (RoundingMode::RoundFloor, "RoundFloor"),
    (RoundingMode::RoundHalfDown, "RoundHalfDown"),
    (RoundingMode::RoundHalfEven, "RoundHalfEven"),
    (RoundingMode::RoundHalfUp, "RoundHalfUp"),
    (RoundingMode::RoundUp, "RoundUp"),
];

pub fn mode_of(s: &str) -> RoundingMode {
    MODES.iter().find(|m| m.1 == s).expect("mode name").0
}
pub fn mode_name(m: RoundingMode) -> &'static str {
    MODES.iter().find(|x| x.0 == m).unwrap().1
}

pub struct St {
    pub acc: Decimal,
    pub hs: HashSet<Decimal>,
    pub bs: BTreeSet<Decimal>,
}

impl St {
    pub fn new() -> Self {
        St { acc: Decimal::ZERO, hs: HashSet::new(), bs: BTreeSet::new() }
    }
}

fn guard<F: FnOnce() -> Out>(f: F) -> Out {
    catch_unwind(AssertUnwindSafe(f)).unwrap_or(Out::Panic)
}

macro_rules! forms4 {
    ($form:expr, $x:expr, $y:expr, |$a:ident, $b:ident| $body:expr) => {
        match $form & 3 {
            0 => { let ($a, $b) = ($x, $y); $body }
            1 => { let ($a, $b) = (&$x, $y); $body }
            2 => { let ($a, $b) = ($x, &$y); $body }
            _ => { let ($a, $b) = (&$x, &$y); $body }
        }
    };
}

#[macro_export]
macro_rules! with_int {
    ($ty:expr, $v:expr, |$i:ident| $body:expr) => {
        match $ty {
            "u8" => { let $i = $v as u8; $body }
            "i8" => { let $i = $v as i8; $body }
            "u16" => { let $i = $v as u16; $body }
            "i16" => { let $i = $v as i16; $body }
            "u32" => { let $i = $v as u32; $body }
            "i32" => { let $i = $v as i32; $body }
            "u64" => { let $i = $v as u64; $body }
            "i64" => { let $i = $v as i64; $body }
            "i128" => { let $i = $v as i128; $body }
            other => panic!("unknown integer type {}", other),
        }
    };
}

// operations available for Decimal/Decimal, Decimal/int and int/Decimal
macro_rules! common_ops {
    ($op:expr, $form:expr, $n:expr, $x:expr, $y:expr) => {
        match $op {
            "add" => forms4!($form, $x, $y, |a, b| od(a + b)),
            "sub" => forms4!($form, $x, $y, |a, b| od(a - b)),
            "mul" => forms4!($form, $x, $y, |a, b| od(a * b)),
            "div" => forms4!($form, $x, $y, |a, b| od(a / b)),
            "rem" => forms4!($form, $x, $y, |a, b| od(a % b)),
            "checked_add" => forms4!($form, $x, $y, |a, b| oo(CheckedAdd::checked_add(a, b))),
            "checked_sub" => forms4!($form, $x, $y, |a, b| oo(CheckedSub::checked_sub(a, b))),
            "checked_mul" => forms4!($form, $x, $y, |a, b| oo(CheckedMul::checked_mul(a, b))),
            "checked_div" => forms4!($form, $x, $y, |a, b| oo(CheckedDiv::checked_div(a, b))),
            "checked_rem" => forms4!($form, $x, $y, |a, b| oo(CheckedRem::checked_rem(a, b))),
            "div_rounded" => forms4!($form, $x, $y, |a, b| od(DivRounded::div_rounded(a, b, $n))),
            "quantize" => forms4!($form, $x, $y, |a, b| od(Quantize::quantize(a, b))),
            other => panic!("op {} not available for these operand types", other),
        }
    };
}

pub fn bin_dd(op: &str, x: Decimal, y: Decimal, n: u8, form: u8) -> Out {
    guard(|| match op {
        "mul_rounded" => forms4!(form, x, y, |a, b| od(MulRounded::mul_rounded(a, b, n))),
        "abs_sub" => od(Signed::abs_sub(&x, &y)),
        _ => common_ops!(op, form, n, x, y),
    })
}
pub fn bin_di(op: &str, x: Decimal, yt: &str, yv: i128, n: u8, form: u8) -> Out {
    guard(|| with_int!(yt, yv, |i| common_ops!(op, form, n, x, i)))
}
pub fn bin_id(op: &str, xt: &str, xv: i128, y: Decimal, n: u8, form: u8) -> Out {
    guard(|| with_int!(xt, xv, |i| common_ops!(op, form, n, i, y)))
}
macro_rules! with_int2 {
    ($ty:expr, $v:expr, $w:expr, |$i:ident, $j:ident| $body:expr) => {
        match $ty {
            "u8" => { let ($i, $j) = ($v as u8, $w as u8); $body }
            "i8" => { let ($i, $j) = ($v as i8, $w as i8); $body }
            "u16" => { let ($i, $j) = ($v as u16, $w as u16); $body }
            "i16" => { let ($i, $j) = ($v as i16, $w as i16); $body }
            "u32" => { let ($i, $j) = ($v as u32, $w as u32); $body }
            "i32" => { let ($i, $j) = ($v as i32, $w as i32); $body }
            "u64" => { let ($i, $j) = ($v as u64, $w as u64); $body }
            "i64" => { let ($i, $j) = ($v as i64, $w as i64); $body }
            "i128" => { let ($i, $j) = ($v as i128, $w as i128); $body }
            other => panic!("unknown integer type {}", other),
        }
    };
}
pub fn bin_ii(op: &str, t: &str, xv: i128, yv: i128, n: u8, form: u8) -> Out {
    guard(|| {
        with_int2!(t, xv, yv, |i, j| match op {
            "div_rounded" => forms4!(form, i, j, |a, b| od(DivRounded::div_rounded(a, b, n))),
            "quantize" => forms4!(form, i, j, |a, b| od(Quantize::quantize(a, b))),
            other => panic!("op {} not available for int/int", other),
        })
    })
}

// compound assignment on an accumulator; `byref` passes the right operand by reference
macro_rules! assign_ops {
    ($op:expr, $acc:expr, $y:expr, $byref:expr) => {
        match ($op, $byref) {
            ("add", false) => $acc += $y,
            ("add", true) => $acc += &$y,
            ("sub", false) => $acc -= $y,
            ("sub", true) => $acc -= &$y,
            ("mul", false) => $acc *= $y,
            ("mul", true) => $acc *= &$y,
            ("div", false) => $acc /= $y,
            ("div", true) => $acc /= &$y,
            ("rem", false) => $acc %= $y,
            ("rem", true) => $acc %= &$y,
            (other, _) => panic!("no compound assignment for {}", other),
        }
    };
}
pub fn assign_d(op: &str, acc: &mut Decimal, y: Decimal, byref: bool) -> Out {
    let mut a = *acc;
    let r = guard(|| {
        assign_ops!(op, a, y, byref);
        od(a)
    });
    if let Out::Ret(c, f) = r {
        *acc = Decimal::new_raw(c, f);
    }
    r
}
pub fn assign_i(op: &str, acc: &mut Decimal, yt: &str, yv: i128, byref: bool) -> Out {
    let mut a = *acc;
    let r = guard(|| {
        with_int!(yt, yv, |i| assign_ops!(op, a, i, byref));
        od(a)
    });
    if let Out::Ret(c, f) = r {
        *acc = Decimal::new_raw(c, f);
    }
    r
}

fn ord_i(o: std::cmp::Ordering) -> i64 {
    match o {
        std::cmp::Ordering::Less => -1,
        std::cmp::Ordering::Equal => 0,
        std::cmp::Ordering::Greater => 1,
    }
}
fn pord_i(o: Option<std::cmp::Ordering>) -> i64 {
    match o {
        Some(o) => ord_i(o),
        Option::None => 2,
    }
}
macro_rules! cmp_ops {
    ($op:expr, $x:expr, $y:expr) => {
        match $op {
            "eq" => ($x == $y) as i64,
            "ne" => ($x != $y) as i64,
            "lt" => ($x < $y) as i64,
            "le" => ($x <= $y) as i64,
            "gt" => ($x > $y) as i64,
            "ge" => ($x >= $y) as i64,
            "partial_cmp" => pord_i($x.partial_cmp(&$y)),
            other => panic!("comparison {} not available", other),
        }
    };
}

fn f64_fields(v: f64) -> Value {
    let b = v.to_bits();
    json!({"sign": (b >> 63) as u32, "bexp": ((b >> 52) & 0x7ff) as u32, "frac": limbs_u128((b & 0xfffffffffffff) as u128)})
}
fn f32_fields(v: f32) -> Value {
    let b = v.to_bits();
    json!({"sign": (b >> 31) as u32, "bexp": ((b >> 23) & 0xff) as u32, "frac": limbs_u128((b & 0x7fffff) as u128)})
}

fn perr(e: &ParseDecimalError) -> &'static str {
    match e {
        ParseDecimalError::Empty => "Empty",
        ParseDecimalError::Invalid => "Invalid",
        ParseDecimalError::FracDigitLimitExceeded => "FracDigitLimitExceeded",
        ParseDecimalError::InternalOverflow => "InternalOverflow",
    }
}
pub fn parse_out(r: Result<Decimal, ParseDecimalError>) -> Value {
    match r {
        Ok(d) => {
            let mut v = dec(d);
            v["k"] = json!("ok");
            v
        }
        Err(e) => json!({"k": "err", "e": perr(&e)}),
    }
}
fn derr(e: &DecimalError) -> &'static str {
    match e {
        DecimalError::MaxNFracDigitsExceeded => "MaxNFracDigitsExceeded",
        DecimalError::InternalOverflow => "InternalOverflow",
        DecimalError::InfiniteValue => "InfiniteValue",
        DecimalError::NotANumber => "NotANumber",
        DecimalError::DivisionByZero => "DivisionByZero",
    }
}
fn dec_res(r: Result<Decimal, DecimalError>) -> Value {
    match r {
        Ok(d) => {
            let mut v = dec(d);
            v["k"] = json!("ok");
            v
        }
        Err(e) => json!({"k": "err", "e": derr(&e)}),
    }
}
fn int_res<T: Into<i128>>(r: Result<T, TryFromDecimalError>) -> Value {
    match r {
        Ok(i) => {
            let mut v = num(i.into());
            v["k"] = json!("ok");
            v
        }
        Err(TryFromDecimalError::NotAnIntValue) => json!({"k": "err", "e": "NotAnIntValue"}),
        Err(TryFromDecimalError::ValueOutOfRange) => json!({"k": "err", "e": "ValueOutOfRange"}),
    }
}

fn digest<T: Hash>(t: &T) -> u64 {
    #[allow(deprecated)]
    let mut h = std::hash::SipHasher::new_with_keys(0x0123456789abcdef, 0xfedcba9876543210);
    t.hash(&mut h);
    h.finish()
}

fn vguard<F: FnOnce() -> Value>(f: F) -> Value {
    catch_unwind(AssertUnwindSafe(f)).unwrap_or_else(|_| json!({"k": "panic"}))
}

fn gs<'a>(e: &'a Value, k: &str) -> &'a str {
    e[k].as_str().unwrap_or("")
}
fn gi(e: &Value, k: &str) -> i64 {
    e[k].as_i64().unwrap_or(0)
}

pub fn bytes_to_string(e: &Value) -> Option<String> {
    let bs: Vec<u8> = e["bs"].as_array().map(|a| a.iter().map(|b| b.as_u64().unwrap() as u8).collect()).unwrap_or_default();
    String::from_utf8(bs).ok()
}

/// Execute the call described by `e` (in place: observed fields are added).
pub fn exec(e: &mut Value, st: &mut St) {
    let ev = gs(e, "ev").to_string();
    match ev.as_str() {
        "set" => {
            RoundingMode::set_default(mode_of(gs(e, "mode")));
        }
        "get" => {
            e["mode"] = json!(mode_name(RoundingMode::default()));
        }
        "spawn" => {}
        "accset" => {
            st.acc = parse_dec(&e["x"]);
        }
        "bin" => {
            let op = gs(e, "op").to_string();
            let (xt, yt) = (gs(e, "xt").to_string(), gs(e, "yt").to_string());
            let n = gi(e, "n") as u8;
            let form = gi(e, "form") as u8;
            let out = if gi(e, "acc") == 1 {
                e["x"] = dec(st.acc);
                if yt == "dec" {
                    assign_d(&op, &mut st.acc, parse_dec(&e["y"]), form & 1 == 1)
                } else {
                    assign_i(&op, &mut st.acc, &yt, parse_num(&e["y"]), form & 1 == 1)
                }
            } else {
                match (xt.as_str(), yt.as_str()) {
                    ("dec", "dec") => bin_dd(&op, parse_dec(&e["x"]), parse_dec(&e["y"]), n, form),
                    ("dec", _) => bin_di(&op, parse_dec(&e["x"]), &yt, parse_num(&e["y"]), n, form),
                    (_, "dec") => bin_id(&op, &xt, parse_num(&e["x"]), parse_dec(&e["y"]), n, form),
                    _ => bin_ii(&op, &xt, parse_num(&e["x"]), parse_num(&e["y"]), n, form),
                }
            };
            e["out"] = out.json();
        }
        "un" => {
            let x = parse_dec(&e["x"]);
            let n = gi(e, "n") as i8;
            let out = guard(|| match gs(e, "op") {
                "round" => od(x.round(n)),
                "checked_round" => oo(x.checked_round(n)),
                "floor" => od(x.floor()),
                "ceil" => od(x.ceil()),
                "trunc" => od(x.trunc()),
                "fract" => od(x.fract()),
                "abs" => od(x.abs()),
                "nt_abs" => od(Signed::abs(&x)),
                "neg" => od(-x),
                "neg_ref" => od(-&x),
                "signum" => od(Signed::signum(&x)),
                "copy" => od(copy_of(x)),
                other => panic!("unknown unary op {}", other),
            });
            e["out"] = out.json();
        }
        "obs" => {
            let x = parse_dec(&e["x"]);
            let v: i64 = match catch_unwind(AssertUnwindSafe(|| match gs(e, "op") {
                "magnitude" => x.magnitude() as i64,
                "eq_zero" => x.eq_zero() as i64,
                "eq_one" => x.eq_one() as i64,
                "is_negative" => x.is_negative() as i64,
                "is_positive" => x.is_positive() as i64,
                "is_zero" => Zero::is_zero(&x) as i64,
                "is_one" => One::is_one(&x) as i64,
                "nt_is_negative" => Signed::is_negative(&x) as i64,
                "nt_is_positive" => Signed::is_positive(&x) as i64,
                other => panic!("unknown observation {}", other),
            })) {
                Ok(v) => v,
                Err(_) => 99,
            };
            e["v"] = json!(v);
        }
        "cmp" => {
            let op = gs(e, "op").to_string();
            let (xt, yt) = (gs(e, "xt").to_string(), gs(e, "yt").to_string());
            match (xt.as_str(), yt.as_str()) {
                ("dec", "dec") => {
                    let (x, y) = (parse_dec(&e["x"]), parse_dec(&e["y"]));
                    match op.as_str() {
                        "min" => e["out"] = guard(|| od(Ord::min(x, y))).json(),
                        "max" => e["out"] = guard(|| od(Ord::max(x, y))).json(),
                        "cmp" => e["v"] = json!(catch_unwind(|| ord_i(Ord::cmp(&x, &y))).unwrap_or(99)),
                        _ => e["v"] = json!(catch_unwind(|| cmp_ops!(op.as_str(), x, y)).unwrap_or(99)),
                    }
                }
                ("dec", _) => {
                    let (x, yv) = (parse_dec(&e["x"]), parse_num(&e["y"]));
                    e["v"] = json!(catch_unwind(|| with_int!(yt.as_str(), yv, |i| cmp_ops!(op.as_str(), x, i))).unwrap_or(99));
                }
                (_, "dec") => {
                    let (xv, y) = (parse_num(&e["x"]), parse_dec(&e["y"]));
                    e["v"] = json!(catch_unwind(|| with_int!(xt.as_str(), xv, |i| cmp_ops!(op.as_str(), i, y))).unwrap_or(99));
                }
                _ => panic!("cmp int/int is not an fpdec operation"),
            }
        }
        "acmp" => {
            crate::arch::acmp(e);
        }
        "kern" => {
            let (x, y) = (parse_num(&e["x"]), parse_num(&e["y"]));
            let m = mode_of(gs(e, "mode"));
            e["out"] = guard(|| Out::Ret(fpdec_core::i128_div_rounded(x, y, Some(m)), 0)).json();
        }
        "wide" => {
            let op = gs(e, "op").to_string();
            let a = parse_num(&e["a"]);
            let m = parse_num(&e["m"]);
            let k = gi(e, "k") as u8;
            let md = mode_of(gs(e, "mode"));
            let r: Result<Option<(i128, Option<i128>)>, _> = catch_unwind(|| match op.as_str() {
                "i256_div_mod_floor" => fpdec_core::i256_div_mod_floor(a, parse_num(&e["b"]), m).map(|(q, r)| (q, Some(r))),
                "i128_shifted_div_mod_floor" => fpdec_core::i128_shifted_div_mod_floor(a, k, m).map(|(q, r)| (q, Some(r))),
                "i128_shifted_div_rounded" => fpdec_core::i128_shifted_div_rounded(a, k, m, Some(md)).map(|q| (q, Option::None)),
                "i128_mul_div_ten_pow_rounded" => fpdec_core::i128_mul_div_ten_pow_rounded(a, parse_num(&e["b"]), k, Some(md)).map(|q| (q, Option::None)),
                other => panic!("unknown wide op {}", other),
            });
            match r {
                Ok(Some((q, r))) => {
                    e["some"] = json!(1);
                    e["q"] = num(q);
                    if let Some(r) = r {
                        e["r"] = num(r);
                    }
                }
                Ok(Option::None) => e["some"] = json!(0),
                Err(_) => {
                    e["some"] = json!(0);
                    e["panicked"] = json!(1);
                }
            }
        }
        "parse" => {
            let s = bytes_to_string(e).expect("valid UTF-8 input").into_boxed_str();
            let form = gs(e, "form").to_string();
            let radix = gi(e, "radix") as u32;
            e["out"] = vguard(|| match form.as_str() {
                "from_str" => parse_out(Decimal::from_str(&s)),
                "try_from_str" => parse_out(Decimal::try_from(&*s)),
                "try_from_string" => parse_out(Decimal::try_from(String::from(&*s))),
                "from_str_radix" => parse_out(<Decimal as Num>::from_str_radix(&s, radix)),
                other => panic!("unknown parse form {}", other),
            });
        }
        "str" => {
            let x = parse_dec(&e["x"]);
            let r = catch_unwind(|| {
                let ts = x.to_string();
                let sf = String::from(x);
                let dbg = format!("{:?}", x);
                let rp = parse_out(Decimal::from_str(&ts));
                let js = serde_json::to_string(&x).unwrap_or_else(|_| String::from("!"));
                let jr = match serde_json::from_str::<Decimal>(&js) {
                    Ok(d) => parse_out(Ok(d)),
                    Err(_) => json!({"k": "err", "e": "serde"}),
                };
                (ts, sf, dbg, rp, js, jr)
            });
            match r {
                Ok((ts, sf, dbg, rp, js, jr)) => {
                    e["ts"] = json!(codes(&ts));
                    e["sf"] = json!(codes(&sf));
                    e["dbg"] = json!(codes(&dbg));
                    e["rp"] = rp;
                    e["js"] = json!(codes(&js));
                    e["jr"] = jr;
                }
                Err(_) => {
                    e["ts"] = json!([0]);
                    e["sf"] = json!([0]);
                    e["dbg"] = json!([0]);
                    e["rp"] = json!({"k": "panic"});
                    e["js"] = json!([]);
                    e["jr"] = json!({"k": "panic"});
                }
            }
        }
        "fmt" => {
            let x = parse_dec(&e["x"]);
            let fi = gi(e, "fi") as usize;
            let (hw, hp) = (gi(e, "hasW") == 1, gi(e, "hasP") == 1);
            let (w, p) = (gi(e, "w") as usize, gi(e, "p") as usize);
            let (fill, align, plus, zero) = crate::fmt::flags(fi);
            e["fill"] = json!(fill as u32);
            e["align"] = json!(align);
            e["plus"] = json!(plus as u8);
            e["zero"] = json!(zero as u8);
            e["out"] = match catch_unwind(|| crate::fmt::format(fi, x, hw, w, hp, p)) {
                Ok(s) => json!(codes(&s)),
                Err(_) => json!([0]),
            };
        }
        "tofloat" => {
            let x = parse_dec(&e["x"]);
            match catch_unwind(|| (f64::from(x), f32::from(x))) {
                Ok((a, b)) => {
                    e["d64"] = f64_fields(a);
                    e["d32"] = f32_fields(b);
                }
                Err(_) => {
                    e["d64"] = json!({"sign": 9, "bexp": 0, "frac": []});
                    e["d32"] = json!({"sign": 9, "bexp": 0, "frac": []});
                }
            }
        }
        "fromfloat" => {
            let w = gi(e, "w");
            let sign = gi(e, "sign") as u64;
            let bexp = gi(e, "bexp") as u64;
            let frac = parse_limbs(&e["frac"]) as u64;
            e["out"] = vguard(|| {
                if w == 64 {
                    dec_res(Decimal::try_from(f64::from_bits((sign << 63) | (bexp << 52) | frac)))
                } else {
                    dec_res(Decimal::try_from(f32::from_bits(((sign << 31) | (bexp << 23) | frac) as u32)))
                }
            });
        }
        "fromint" => {
            let ty = gs(e, "ty").to_string();
            e["out"] = vguard(|| {
                if ty == "u128" {
                    dec_res(Decimal::try_from(parse_limbs(&e["v"]["m"])))
                } else {
                    let v = parse_num(&e["v"]);
                    let d = with_int!(ty.as_str(), v, |i| Decimal::from(i));
                    dec_res(Ok(d))
                }
            });
        }
        "toint" => {
            let x = parse_dec(&e["x"]);
            let ty = gs(e, "ty").to_string();
            e["out"] = vguard(|| match ty.as_str() {
                "u8" => int_res(u8::try_from(x)),
                "i8" => int_res(i8::try_from(x)),
                "u16" => int_res(u16::try_from(x)),
                "i16" => int_res(i16::try_from(x)),
                "u32" => int_res(u32::try_from(x)),
                "i32" => int_res(i32::try_from(x)),
                "u64" => int_res(u64::try_from(x)),
                "i64" => int_res(i64::try_from(x)),
                "i128" => int_res(i128::try_from(x)),
                "u128" => match u128::try_from(x) {
                    Ok(i) => {
                        let mut v = unum(i);
                        v["k"] = json!("ok");
                        v
                    }
                    Err(TryFromDecimalError::NotAnIntValue) => json!({"k": "err", "e": "NotAnIntValue"}),
                    Err(TryFromDecimalError::ValueOutOfRange) => json!({"k": "err", "e": "ValueOutOfRange"}),
                },
                other => panic!("unknown type {}", other),
            });
        }
        "ratio" => {
            let x = parse_dec(&e["x"]);
            match catch_unwind(|| (x.as_integer_ratio(), x.numerator(), x.denominator())) {
                Ok(((n, d), n2, d2)) => {
                    e["num"] = num(n);
                    e["den"] = num(d);
                    e["n2"] = num(n2);
                    e["d2"] = num(d2);
                }
                Err(_) => {
                    e["num"] = num(0);
                    e["den"] = num(0);
                    e["n2"] = num(0);
                    e["d2"] = num(0);
                }
            }
        }
        "hash" => {
            let x = parse_dec(&e["x"]);
            match catch_unwind(|| (digest(&x), digest(&x.as_integer_ratio()))) {
                Ok((h, hr)) => {
                    e["h"] = json!(limbs_u128(h as u128));
                    e["hr"] = json!(limbs_u128(hr as u128));
                }
                Err(_) => {
                    e["h"] = json!([1]);
                    e["hr"] = json!([2]);
                }
            }
        }
        "hs" => {
            let x = parse_dec(&e["x"]);
            let v = match gs(e, "op") {
                "insert" => st.hs.insert(x),
                "contains" => st.hs.contains(&x),
                "remove" => st.hs.remove(&x),
                other => panic!("unknown set op {}", other),
            };
            e["v"] = json!(v as u8);
        }
        "bs" => {
            let x = parse_dec(&e["x"]);
            let new = st.bs.insert(x);
            e["v"] = json!(new as u8);
            e["rank"] = json!(st.bs.range(..x).count());
            e["len"] = json!(st.bs.len());
        }
        "forms" => {
            crate::forms::forms(e);
        }
        "const" => {
            let d = match gs(e, "name") {
                "ZERO" => Decimal::ZERO,
                "ONE" => Decimal::ONE,
                "NEG_ONE" => Decimal::NEG_ONE,
                "TWO" => Decimal::TWO,
                "TEN" => Decimal::TEN,
                "MAX" => Decimal::MAX,
                "MIN" => Decimal::MIN,
                "DELTA" => Decimal::DELTA,
                "default" => Decimal::default(),
                "nt_zero" => <Decimal as Zero>::zero(),
                "nt_one" => <Decimal as One>::one(),
                "MAX_N_FRAC_DIGITS" => Decimal::from(MAX_N_FRAC_DIGITS),
                other => panic!("unknown constant {}", other),
            };
            e["out"] = od(d).json();
        }
        "intratio" => {
            let ty = gs(e, "ty").to_string();
            let v = parse_num(&e["v"]);
            let (n, d) = with_int!(ty.as_str(), v, |i| (AsIntegerRatio::numerator(i), AsIntegerRatio::denominator(i)));
            e["num"] = num(n);
            e["den"] = num(d);
        }
        other => panic!("unknown event kind {}", other),
    }
}

#[cfg(feature = "rkyv")]
fn copy_of(x: Decimal) -> Decimal {
    crate::arch::roundtrip(x)
}
#[cfg(not(feature = "rkyv"))]
#[allow(clippy::clone_on_copy)]
fn copy_of(x: Decimal) -> Decimal {
    let y = x.clone();
    let z: Decimal = y;
    z
}
