---------------------------- MODULE Trace ----------------------------
(* Trace validation: every event recorded from the real crate (one per    *)
(* public call, logged at its return; panics are data) must be a step of   *)
(* the machine below: outcome allowed by FpDec/FpText/FpFloat under the    *)
(* *calling thread's* rounding mode (spec state, never logged with calls), *)
(* accumulator / HashSet / BTreeSet / digest state consistent with the     *)
(* history.  A non-conforming event is recorded in `bad` (or in `known` if *)
(* an open finding's deviation operator explains exactly that outcome) and *)
(* the machine re-synchronises from the logged post-state, so the rest of  *)
(* the trace is still checked.                                             *)
EXTENDS BigInt, Json, IOUtils, TLC, FiniteSets
CONSTANT OpenFindings          \* names of open known findings (from known_findings.json)

I128Max == I128MaxLit
I128Min == I128MinLit
S == INSTANCE FpDec WITH ZAdd <- BAdd, ZSub <- BSub, ZMul <- BMul, ZCmp <- BCmp, ZFloorDivMod <- BFloorDivMod,
       ZLit <- BLit, ZNeg <- BNeg, ZAbs <- BAbs, ZSign <- BSign, ZIsEven <- BIsEven, ZMod5Is0 <- BMod5Is0,
       ZPow10 <- BPow10, ZPow2 <- BPow2, ZDigits <- BDigits, MaxFrac <- 18, CoeffBits <- 127,
       CoeffMax <- I128Max, CoeffMin <- I128Min, MaxDigits <- 39
T == INSTANCE FpText WITH MaxFrac <- 18, CoeffBits <- 127
F == INSTANCE FpFloat WITH MaxFrac <- 18, CoeffBits <- 127
D == INSTANCE FpDev WITH MaxFrac <- 18, CoeffBits <- 127

Rec == ndJsonDeserialize(IOEnv.TRACE)
Threads == 1..64

VARIABLES l,       \* next event
          alive,   \* threads seen so far
          mode,    \* [Threads -> Modes]  thread default rounding mode
          acc,     \* [Threads -> Dec]    accumulator of compound assignments
          hset,    \* model of HashSet<Decimal>: set of reduced fractions
          digest,  \* reduced fraction -> first digest seen
          bset,    \* model of BTreeSet<Decimal>: set of reduced fractions
          bad, known
vars == <<l, alive, mode, acc, hset, digest, bset, bad, known>>

(* ---- decoding ---- *)
Num(j) == Mk(j.s, j.m)
DecOf(j) == [c |-> Num(j), f |-> j.f]
Wrong == [k |-> "wrongfail", c |-> Z0, f |-> 0]
\* fk: the failure kind the statement prescribes for the called form
OutOf(j, fk) == IF j.k = "ret" THEN S!Ret(Num(j), j.f) ELSE IF j.k = fk THEN S!Fail ELSE Wrong
CheckedOps == {"checked_add", "checked_sub", "checked_mul", "checked_div", "checked_rem", "checked_round"}
FailKind(op) == IF op \in CheckedOps THEN "none" ELSE "panic"
B2I(b) == IF b THEN 1 ELSE 0
TypeRange(ty) ==
  CASE ty = "u8" -> <<Z0, BLit(255)>> [] ty = "i8" -> <<BLit(-128), BLit(127)>>
    [] ty = "u16" -> <<Z0, BLit(65535)>> [] ty = "i16" -> <<BLit(-32768), BLit(32767)>>
    [] ty = "u32" -> <<Z0, BSub(BPow2(32), BLit(1))>> [] ty = "i32" -> <<BNeg(BPow2(31)), BSub(BPow2(31), BLit(1))>>
    [] ty = "u64" -> <<Z0, BSub(BPow2(64), BLit(1))>> [] ty = "i64" -> <<BNeg(BPow2(63)), BSub(BPow2(63), BLit(1))>>
    [] ty = "u128" -> <<Z0, BSub(BPow2(128), BLit(1))>> [] ty = "i128" -> <<BNeg(BPow2(127)), BSub(BPow2(127), BLit(1))>>
Canon(x) == S!Ratio(x)

(* ---- conformance of one event ---- *)
BinOk(e, md) ==
  LET x == DecOf(e.x)  y == DecOf(e.y)  op == e.op  o == OutOf(e.out, FailKind(e.op))
      dd == e.xt = "dec" /\ e.yt = "dec" IN
  /\ (e.acc = 1 => x = acc[e.t])
  /\ CASE op \in {"add", "checked_add"} -> S!AddSubOk(x, y, FALSE, o)
       [] op \in {"sub", "checked_sub"} -> S!AddSubOk(x, y, TRUE, o)
       [] op = "mul" -> IF dd THEN S!MulDecOk(x, y, md, o)
                        ELSE IF e.xt = "dec" THEN S!MulIntOk(x, y.c, o) ELSE S!MulIntOk(y, x.c, o)
       [] op = "checked_mul" -> IF dd THEN S!CheckedMulDecOk(x, y, o)
                        ELSE IF e.xt = "dec" THEN S!MulIntOk(x, y.c, o) ELSE S!MulIntOk(y, x.c, o)
       [] op \in {"div", "checked_div"} -> S!DivOk(x, y, md, o)
       [] op \in {"rem", "checked_rem"} -> S!RemOk(x, y, o)
       [] op = "div_rounded" -> S!DivRoundedOk(x, y, e.n, md, o)
       [] op = "mul_rounded" -> S!MulRoundedOk(x, y, e.n, md, o)
       [] op = "quantize" -> S!QuantizeOk(x, y, md, o)
       [] op = "abs_sub" -> IF S!CmpVal(x, y) <= 0 THEN S!SameValue(o, Z0, 0)             \* max(x - y, 0): value only
                            ELSE LET m == S!Max(x.f, y.f)  dv == BSub(S!Scale(x.c, m - x.f), S!Scale(y.c, m - y.f)) IN
                                 S!SameValue(o, dv, m) \/ (S!IsFail(o) /\ S!AddSubOk(x, y, TRUE, S!Fail))
UnOk(e, md) ==
  LET x == DecOf(e.x)  op == e.op  o == OutOf(e.out, FailKind(e.op)) IN
  CASE op \in {"round", "checked_round"} -> S!RoundOk(x, e.n, md, o)
    [] op = "floor" -> S!SameValue(o, S!FloorVal(x), 0)
    [] op = "ceil" -> S!SameValue(o, S!CeilVal(x), 0)
    [] op = "trunc" -> S!SameValue(o, S!TruncVal(x), 0)
    [] op = "fract" -> S!IsRet(o, S!FractCoeff(x), x.f)
    [] op \in {"abs", "nt_abs"} -> S!IsRet(o, BAbs(x.c), x.f)
    [] op \in {"neg", "neg_ref"} -> S!IsRet(o, BNeg(x.c), x.f)
    [] op = "signum" -> S!SameValue(o, BLit(x.c.s), 0)
    [] op = "copy" -> S!IsRet(o, x.c, x.f)                    \* rkyv archive/deserialize, Clone, Default-free copies
ObsOk(e) ==      \* integer / boolean observations
  LET x == DecOf(e.x)  op == e.op IN
  CASE op = "magnitude" -> e.v = S!MagnitudeVal(x)
    [] op \in {"eq_zero", "is_zero"} -> e.v = B2I(x.c.s = 0)
    [] op \in {"eq_one", "is_one"} -> e.v = B2I(S!IsOneD(x))
    [] op \in {"is_negative", "nt_is_negative"} -> e.v = B2I(x.c.s < 0)
    [] op \in {"is_positive", "nt_is_positive"} -> e.v = B2I(x.c.s > 0)
\* the associated constants, Default, the crate-level limit, AsIntegerRatio of primitive integers
ConstVal(name) ==
  CASE name \in {"ZERO", "default", "nt_zero"} -> S!Ret(Z0, 0) [] name \in {"ONE", "nt_one"} -> S!Ret(BLit(1), 0)
    [] name = "NEG_ONE" -> S!Ret(BLit(-1), 0) [] name = "TWO" -> S!Ret(BLit(2), 0) [] name = "TEN" -> S!Ret(BLit(10), 0)
    [] name = "MAX" -> S!Ret(I128Max, 0) [] name = "MIN" -> S!Ret(BNeg(I128Max), 0) [] name = "DELTA" -> S!Ret(BLit(1), 18)
    [] name = "MAX_N_FRAC_DIGITS" -> S!Ret(BLit(18), 0)
ConstOk(e) == OutOf(e.out, "never") = ConstVal(e.name)
IntRatioOk(e) == Num(e.num) = Num(e.v) /\ Num(e.den) = BLit(1)
CmpOk(e) ==
  LET x == DecOf(e.x)  y == DecOf(e.y)  c == S!CmpVal(x, y)  op == e.op IN
  CASE op = "eq" -> e.v = B2I(c = 0) [] op = "ne" -> e.v = B2I(c # 0)
    [] op = "lt" -> e.v = B2I(c < 0) [] op = "le" -> e.v = B2I(c <= 0)
    [] op = "gt" -> e.v = B2I(c > 0) [] op = "ge" -> e.v = B2I(c >= 0)
    [] op \in {"cmp", "partial_cmp"} -> e.v = c
    [] op = "min" -> LET o == OutOf(e.out, "never") IN
                     IF c < 0 THEN o = S!Ret(x.c, x.f) ELSE IF c > 0 THEN o = S!Ret(y.c, y.f)
                     ELSE o \in {S!Ret(x.c, x.f), S!Ret(y.c, y.f)}
    [] op = "max" -> LET o == OutOf(e.out, "never") IN
                     IF c > 0 THEN o = S!Ret(x.c, x.f) ELSE IF c < 0 THEN o = S!Ret(y.c, y.f)
                     ELSE o \in {S!Ret(x.c, x.f), S!Ret(y.c, y.f)}
\* feature rkyv: archived values compare like the values they were archived from, and keep (coefficient, scale)
ArchTag == <<65, 114, 99, 104, 105, 118, 101, 100, 68, 101, 99, 105, 109, 97, 108, 40>>      \* "ArchivedDecimal("
AcmpOk(e) ==
  LET x == DecOf(e.x) IN
  /\ CmpOk(e) /\ Num(e.ac) = x.c /\ e.af = x.f
  /\ e.apred = <<B2I(x.c.s = 0), B2I(S!IsOneD(x)), B2I(x.c.s < 0), B2I(x.c.s > 0)>>
  /\ e.adbg = ArchTag \o T!Canon(x.c, x.f) \o <<41>>
KernOk(e) == S!KernelOk(Num(e.x), Num(e.y), e.mode, OutOf(e.out, "panic"))
WideOk(e, md) ==
  LET op == e.op  some == e.some = 1  q == IF some THEN Num(e.q) ELSE Z0  r == IF some /\ op \in {"i256_div_mod_floor", "i128_shifted_div_mod_floor"} THEN Num(e.r) ELSE Z0
      m == Num(e.m)
      n == IF op \in {"i256_div_mod_floor", "i128_mul_div_ten_pow_rounded"} THEN BMul(Num(e.a), Num(e.b)) ELSE BMul(Num(e.a), BPow10(e.k))
      mm == IF op = "i128_mul_div_ten_pow_rounded" THEN BPow10(e.k) ELSE m
  IN /\ "panicked" \notin DOMAIN e          \* the primitives report an unrepresentable quotient by None, never by a panic
     /\ IF op \in {"i256_div_mod_floor", "i128_shifted_div_mod_floor"} THEN S!WideOk(n, mm, some, q, r)
        ELSE S!WideRoundedOk(IF mm.s < 0 THEN BNeg(n) ELSE n, BAbs(mm), e.mode, some, q)
ParseOut(j) == IF j.k = "ok" THEN [k |-> "ok", c |-> Num(j), f |-> j.f]
               ELSE IF j.k = "err" THEN [k |-> IF j.e = "Empty" THEN "empty" ELSE "err", c |-> Z0, f |-> 0]
               ELSE [k |-> "panic", c |-> Z0, f |-> 0]
ParseEvOk(e) == IF e.form = "from_str_radix" /\ e.radix # 10
                THEN e.out.k = "err" /\ e.out.e = "Invalid"
                ELSE T!ParseOk(e.bs, ParseOut(e.out))
StrOk(e) ==
  LET x == DecOf(e.x)  cn == T!Canon(x.c, x.f) IN
  /\ e.ts = cn /\ e.sf = cn /\ e.dbg = T!DebugText(x.c, x.f)
  /\ e.rp.k = "ok" /\ Num(e.rp) = x.c /\ e.rp.f = x.f
  /\ T!ParseOk(cn, [k |-> "ok", c |-> x.c, f |-> x.f])           \* the grammar itself round-trips
  /\ (e.js # <<>> => e.js = T!JsonText(x.c, x.f) /\ e.jr.k = "ok" /\ Num(e.jr) = x.c /\ e.jr.f = x.f)
FmtOk(e, md) ==
  LET x == DecOf(e.x) IN
  e.out = T!Display(S!RoundQ, x.c, x.f, md, e.hasP = 1, e.p, e.hasW = 1, e.w, e.fill, e.align, e.plus = 1, e.zero = 1)
FloatFields(j) == [sign |-> j.sign, bexp |-> j.bexp, frac |-> Mk(IF j.frac = <<>> THEN 0 ELSE 1, j.frac)]
ToFloatOk(e) ==
  LET x == DecOf(e.x) IN
  /\ FloatFields(e.d64) = F!ToFloat(x.c, x.f, 52, 1023)
  /\ FloatFields(e.d32) = F!ToFloat(x.c, x.f, 23, 127)
FromFloatOk(e) ==
  LET fr == Mk(IF e.frac = <<>> THEN 0 ELSE 1, e.frac)
      r == IF e.w = 64 THEN F!FromFloat(e.sign, e.bexp, fr, 52, 2047, 1023) ELSE F!FromFloat(e.sign, e.bexp, fr, 23, 255, 127)
  IN IF r[1] = "ok" THEN e.out.k = "ok" /\ Num(e.out) = r[2] /\ e.out.f = r[3]
     ELSE IF r[1] = "ok_or_overflow"
          THEN (e.out.k = "ok" /\ Num(e.out) = r[2] /\ e.out.f = r[3]) \/ (e.out.k = "err" /\ e.out.e = "InternalOverflow")
     ELSE e.out.k = "err" /\ e.out.e = r[1]
FromIntOk(e) ==
  LET v == Num(e.v) IN
  IF e.ty = "u128" /\ BCmp(v, I128Max) > 0 THEN e.out.k = "err" /\ e.out.e = "InternalOverflow"
  ELSE e.out.k = "ok" /\ Num(e.out) = v /\ e.out.f = 0
ToIntOk(e) ==
  LET x == DecOf(e.x)  rg == TypeRange(e.ty)  kind == S!IntoIntKind(x, rg[1], rg[2]) IN
  IF kind = "ok" THEN e.out.k = "ok" /\ Num(e.out) = S!FloorVal(x) ELSE e.out.k = "err" /\ e.out.e = kind
RatioOk(e) ==
  LET x == DecOf(e.x)  r == S!Ratio(x) IN
  /\ Num(e.num) = r[1] /\ Num(e.den) = r[2] /\ Num(e.n2) = r[1] /\ Num(e.d2) = r[2]
HashOk(e) ==
  LET cn == Canon(DecOf(e.x)) IN e.h = e.hr /\ (cn \in DOMAIN digest => digest[cn] = e.h)
HsOk(e) ==
  LET cn == Canon(DecOf(e.x)) IN
  CASE e.op = "insert" -> e.v = B2I(cn \notin hset)
    [] e.op = "contains" -> e.v = B2I(cn \in hset)
    [] e.op = "remove" -> e.v = B2I(cn \in hset)
\* rank of a value in the ordered set = number of members strictly below it (exact rational order)
RatLess(a, b) == BCmp(BMul(a[1], b[2]), BMul(b[1], a[2])) < 0
BsOk(e) ==
  LET cn == Canon(DecOf(e.x)) IN
  /\ e.v = B2I(cn \notin bset)
  /\ e.rank = Cardinality({m \in bset : RatLess(m, cn)})
  /\ e.len = Cardinality(bset \cup {cn})
\* C17: all operand forms of one operation agree with the first and with the Decimal::from(i) reference
SameOutcome(a, b) == a.k = b.k /\ (a.k = "ret" => Num(a) = Num(b) /\ a.f = b.f)
FormsOk(e, md) ==
  LET o1 == e.outs[1]
      ref == e.ref
      x == DecOf(e.x)  y == DecOf(e.y)
      r1 == OutOf(o1, "x")  rr == OutOf(ref, "x")
      bothRet == o1.k = "ret" /\ ref.k = "ret"
      sameVal == BCmp(BMul(r1.c, BPow10(rr.f)), BMul(rr.c, BPow10(r1.f))) = 0
      mulException == e.op \in {"mul", "checked_mul"} /\ (S!IsOneD(x) \/ S!IsOneD(y)) /\ ref.k = "ret" /\ o1.k # "ret"
  IN /\ \A i \in 2..Len(e.outs) : SameOutcome(e.outs[i], o1)
     /\ \/ (bothRet /\ sameVal /\ (e.op \in {"add", "sub", "checked_add", "checked_sub"} => r1.f = rr.f))
        \/ (o1.k # "ret" /\ o1.k = ref.k)
        \/ mulException
LitOk(e) ==   \* C18: Dec!(lit) vs from_str(lit)
  IF e.rt.k = "ok" THEN e.mac.k = "ok" /\ Num(e.mac) = Num(e.rt) /\ e.mac.f = e.rt.f
  ELSE e.mac.k = "cerr"
PairOk(e) == \A i \in 2..Len(e.outs) : e.outs[i] = e.outs[1]      \* C20: same observable in every build

Conforms(e) ==
  LET md == mode[e.t] IN
  CASE e.ev = "set" -> TRUE
    [] e.ev = "get" -> e.mode = md
    [] e.ev = "mread" -> e.mode = md                  \* hook: every internal read of the thread default
    [] e.ev = "spawn" -> e.c \notin alive
    [] e.ev = "accset" -> TRUE
    [] e.ev = "bin" -> BinOk(e, md)
    [] e.ev = "un" -> UnOk(e, md)
    [] e.ev = "obs" -> ObsOk(e)
    [] e.ev = "cmp" -> CmpOk(e)
    [] e.ev = "const" -> ConstOk(e)
    [] e.ev = "intratio" -> IntRatioOk(e)
    [] e.ev = "acmp" -> AcmpOk(e)
    [] e.ev = "kern" -> KernOk(e)
    [] e.ev = "wide" -> WideOk(e, md)
    [] e.ev = "parse" -> ParseEvOk(e)
    [] e.ev = "str" -> StrOk(e)
    [] e.ev = "fmt" -> FmtOk(e, md)
    [] e.ev = "tofloat" -> ToFloatOk(e)
    [] e.ev = "fromfloat" -> FromFloatOk(e)
    [] e.ev = "fromint" -> FromIntOk(e)
    [] e.ev = "toint" -> ToIntOk(e)
    [] e.ev = "ratio" -> RatioOk(e)
    [] e.ev = "hash" -> HashOk(e)
    [] e.ev = "hs" -> HsOk(e)
    [] e.ev = "bs" -> BsOk(e)
    [] e.ev = "forms" -> FormsOk(e, md)
    [] e.ev = "lit" -> LitOk(e)
    [] e.ev = "pair" -> PairOk(e)
    [] e.ev = "pstep" -> e.req <= e.rem                \* hook: the parser never reads past the end of the string

Verdict(e) ==
  IF Conforms(e) THEN "ok"
  ELSE LET ds == {k \in OpenFindings : D!Explains(k, e, mode[e.t])} IN
       IF ds # {} THEN CHOOSE k \in ds : TRUE ELSE "bad"

(* ---- the machine ---- *)
Init == /\ l = 1 /\ alive = {1}
        /\ mode = [t \in Threads |-> "RoundHalfEven"]
        /\ acc = [t \in Threads |-> [c |-> Z0, f |-> 0]]
        /\ hset = {} /\ digest = <<>> /\ bset = {} /\ bad = <<>> /\ known = <<>>
Step ==
  /\ l <= Len(Rec)
  /\ LET e == Rec[l]  v == Verdict(e) IN
     /\ bad' = IF v = "bad" THEN Append(bad, l) ELSE bad
     /\ known' = IF v \notin {"ok", "bad"} THEN Append(known, <<v, l>>) ELSE known
     /\ mode' = IF e.ev = "set" THEN [mode EXCEPT ![e.t] = e.mode] ELSE mode       \* only the caller's own entry
     /\ alive' = IF e.ev = "spawn" THEN alive \cup {e.c} ELSE alive \cup {e.t}
     /\ acc' = IF e.ev = "accset" THEN [acc EXCEPT ![e.t] = DecOf(e.x)]
               ELSE IF e.ev = "bin" /\ e.acc = 1 /\ e.out.k = "ret" THEN [acc EXCEPT ![e.t] = [c |-> Num(e.out), f |-> e.out.f]]
               ELSE acc
     /\ hset' = IF e.ev = "hs" /\ e.op = "insert" THEN hset \cup {Canon(DecOf(e.x))}
                ELSE IF e.ev = "hs" /\ e.op = "remove" THEN hset \ {Canon(DecOf(e.x))} ELSE hset
     /\ bset' = IF e.ev = "bs" THEN bset \cup {Canon(DecOf(e.x))} ELSE bset
     /\ digest' = IF e.ev = "hash" /\ Canon(DecOf(e.x)) \notin DOMAIN digest
                  THEN digest @@ (Canon(DecOf(e.x)) :> e.h) ELSE digest
  /\ l' = l + 1
Spec == Init /\ [][Step]_vars

\* C19 as an action property of the machine: a thread's mode changes only by that thread's own set_default
ModeIsolation == [][\A t \in Threads : mode'[t] # mode[t] => (Rec[l].ev = "set" /\ Rec[l].t = t)]_vars
Report == l <= Len(Rec) \/ PrintT("RESULT " \o ToJson([n |-> Len(Rec), bad |-> bad, known |-> known]))
=======================================================================
