CONSTANTS Threads = {t1, t2, t3}
 ModesUsed = {"HalfEven", "HalfUp", "Down"}
 MaxDepth = 5
 GlobalBug = TRUE
SPECIFICATION Spec
INVARIANT Isolation
CHECK_DEADLOCK FALSE
