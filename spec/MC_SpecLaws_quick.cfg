INIT Init
NEXT Next
CONSTANTS NMax = 150
 DMax = 24
INVARIANT RoundLaws
INVARIANT NativeCopy
INVARIANT UnaryLaws
INVARIANT BinaryLaws
CHECK_DEADLOCK FALSE
