SPECIFICATION Spec
CONSTANTS Kind = "kernel"
 NMax = 400
 DMax = 40
 LMax = 0
 ScaleSet = {0}
INVARIANT Emit
CHECK_DEADLOCK FALSE
