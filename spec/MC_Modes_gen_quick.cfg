SPECIFICATION Spec
CONSTANTS NThreads = 3
 ModesUsed = {"RoundHalfEven", "RoundHalfUp", "RoundDown"}
 MaxDepth = 4
 Variant = "ok"
 EmitSchedules = TRUE
INVARIANT Isolation
INVARIANT Emit
CHECK_DEADLOCK FALSE
