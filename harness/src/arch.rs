// C08 (feature rkyv): archive -> check_archived_root -> deserialize is the identity, and
// archived values compare with each other and with Decimals like the values they came from.
#![allow(unused)]
use crate::enc::*;
use fpdec::*;
use serde_json::{json, Value};

#[cfg(feature = "rkyv")]
pub fn roundtrip(x: Decimal) -> Decimal {
    use rkyv::Deserialize;
    let bytes = rkyv::to_bytes::<_, 256>(&x).expect("serialize");
    let archived = rkyv::check_archived_root::<Decimal>(&bytes[..]).expect("check_archived_root");
    archived.deserialize(&mut rkyv::Infallible).expect("deserialize")
}

fn ord_i(o: Option<std::cmp::Ordering>) -> i64 {
    match o {
        Some(std::cmp::Ordering::Less) => -1,
        Some(std::cmp::Ordering::Equal) => 0,
        Some(std::cmp::Ordering::Greater) => 1,
        None => 2,
    }
}

/// event "acmp": op in eq/ne/lt/le/gt/ge/partial_cmp/cmp, kind in "aa" (archived/archived),
/// "ad" (archived/Decimal), "da" (Decimal/archived); result in "v" like a "cmp" event.
#[cfg(feature = "rkyv")]
pub fn acmp(e: &mut Value) {
    let (x, y) = (parse_dec(&e["x"]), parse_dec(&e["y"]));
    let bx = rkyv::to_bytes::<_, 256>(&x).expect("serialize");
    let by = rkyv::to_bytes::<_, 256>(&y).expect("serialize");
    let ax = rkyv::check_archived_root::<Decimal>(&bx[..]).expect("check");
    let ay = rkyv::check_archived_root::<Decimal>(&by[..]).expect("check");
    let op = e["op"].as_str().unwrap().to_string();
    let kind = e["kind"].as_str().unwrap().to_string();
    macro_rules! ops {
        ($a:expr, $b:expr) => {
            match op.as_str() {
                "eq" => ($a == $b) as i64,
                "ne" => ($a != $b) as i64,
                "lt" => ($a < $b) as i64,
                "le" => ($a <= $b) as i64,
                "gt" => ($a > $b) as i64,
                "ge" => ($a >= $b) as i64,
                "partial_cmp" => ord_i($a.partial_cmp(&$b)),
                other => panic!("unknown comparison {}", other),
            }
        };
    }
    let v = std::panic::catch_unwind(std::panic::AssertUnwindSafe(|| match kind.as_str() {
        "aa" => {
            if op == "cmp" {
                ord_i(Some(Ord::cmp(ax, ay)))
            } else {
                ops!(*ax, *ay)
            }
        }
        "ad" => ops!(*ax, y),
        "da" => ops!(x, *ay),
        other => panic!("unknown kind {}", other),
    }))
    .unwrap_or(99);
    e["v"] = json!(v);
    e["ac"] = num(ax.coefficient());
    e["af"] = json!(ax.n_frac_digits());
    // predicates and Debug text of the archived value
    e["apred"] = json!([ax.eq_zero() as u8, ax.eq_one() as u8, ax.is_negative() as u8, ax.is_positive() as u8]);
    e["adbg"] = json!(codes(&format!("{:?}", ax)));
}

#[cfg(not(feature = "rkyv"))]
pub fn acmp(_e: &mut Value) {
    panic!("harness built without feature rkyv");
}
