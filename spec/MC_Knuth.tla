---------------------------- MODULE MC_Knuth ----------------------------
(* C16, design level: a miniature transcription (half-word width W bits instead *)
(* of 64) of the multi-word division of fpdec-core/src/lib.rs - u256_idiv_u64,  *)
(* u256_idiv_u128_special (Knuth D without add-back, wrapping arithmetic),      *)
(* u256_idiv_u128 (two-step) - and of i256_div_mod_floor with its sign fix-up,  *)
(* checked against the relation of the property (FpDec!WideOk): a*b = q*m + r,  *)
(* 0 <= r < m, None iff q is outside the (2W)-bit signed range.  All operands.  *)
(* Variant "f1" is the sign fix-up before the repair, "mul_carry" a product that *)
(* loses the carry of the middle partial products (negative controls).          *)
EXTENDS NatInt, TLC
CONSTANTS W, Variant
S == INSTANCE FpDec WITH ZAdd <- IAdd, ZSub <- ISub, ZMul <- IMul, ZCmp <- ICmp, ZFloorDivMod <- IFloorDivMod, ZLit <- ILit,
       ZNeg <- INeg, ZAbs <- IAbs, ZSign <- ISign, ZIsEven <- IIsEven, ZMod5Is0 <- IMod5Is0, ZPow10 <- IPow10, ZPow2 <- IPow2,
       ZDigits <- IDigits, MaxFrac <- 2, CoeffBits <- 2*W - 1, CoeffMax <- 2^(2*W-1) - 1, CoeffMin <- 0 - 2^(2*W-1), MaxDigits <- IDigits(2^(2*W-1) - 1)
B == 2^W                        \* half-word base
M == B * B                      \* word modulus (2^128 in the crate)
IMAX == M \div 2 - 1
Hi(u) == u \div B
Lo(u) == u % B
RECURSIVE Msb(_)
Msb(u) == IF u <= 1 THEN 0 ELSE 1 + Msb(u \div 2)
Wrap(z) == z % M
RECURSIVE Corr(_,_,_,_,_,_)
Corr(q, rhat, yn1, yn0, xd, k) ==      \* the correction loop: <<q, rhat, iterations>>
  IF q >= B \/ q * yn0 > rhat * B + xd
  THEN LET q2 == q - 1  r2 == rhat + yn1 IN IF r2 >= B THEN <<q2, r2, k + 1>> ELSE Corr(q2, r2, yn1, yn0, xd, k + 1)
  ELSE <<q, rhat, k>>
Special(xh, xl, y) ==           \* pre: xh < y, Hi(y) # 0 ; <<quotient, remainder, q1, q0, corrections>>
  LET nb   == (2*W - 1) - Msb(y)
      yN   == y * 2^nb
      yn1  == Hi(yN)  yn0 == Lo(yN)
      sh   == IF nb = 0 THEN 0 ELSE xl \div 2^(2*W - nb)
      xn32 == Wrap(xh * 2^nb) + sh
      xn10 == Wrap(xl * 2^nb)
      xn1  == Hi(xn10)  xn0 == Lo(xn10)
      c1   == Corr(xn32 \div yn1, xn32 % yn1, yn1, yn0, xn1, 0)
      q1   == c1[1]
      t    == Wrap(Wrap(xn32 * B) + xn1 - Wrap(q1 * yN) + M)
      c0   == Corr(t \div yn1, t % yn1, yn1, yn0, xn0, 0)
      q0   == c0[1]
      r    == Wrap(Wrap(t * B) + xn0 - Wrap(q0 * yN) + M) \div 2^nb
  IN <<q1 * B + q0, r, q1, q0, c1[3] + c0[3]>>
U64Div(xh, xl, y) ==            \* y < B ; <<qh, ql, remainder>>
  IF y = 1 THEN <<xh, xl, 0>> ELSE
  LET th == Hi(xh)  r1 == th % y  tl == r1 * B + Lo(xh)
      qh == (th \div y) * B + tl \div y
      r2 == tl % y  th2 == r2 * B + Hi(xl)  r3 == th2 % y  tl2 == r3 * B + Lo(xl)
      ql == (th2 \div y) * B + tl2 \div y
  IN <<qh, ql, tl2 % y>>
Full(xh, xl, y) ==              \* u256_idiv_u128: <<qh, ql, remainder>>
  IF Hi(y) = 0 THEN U64Div(xh, xl, y)
  ELSE IF xh < y THEN LET s == Special(xh, xl, y) IN <<0, s[1], s[2]>>
  ELSE LET s == Special(xh % y, xl, y) IN <<xh \div y, s[1], s[2]>>
Abs(z) == IF z < 0 THEN 0 - z ELSE z
\* u128_mul_u128: four half-word partial products with their carries; <<high word, low word, every intermediate fits a word>>
Mul(x, y) ==
  LET xh == Hi(x)  xl == Lo(x)  yh == Hi(y)  yl == Lo(y)
      t1 == xl * yl
      t2 == xl * yh + Hi(t1)
      t3 == xh * yl + Lo(t2)
      rl == Lo(t1) + Lo(t3) * B
      rh == Hi(t2) + xh * yh + (IF Variant = "mul_carry" THEN 0 ELSE Hi(t3))
  IN <<rh, rl, t1 < M /\ t2 < M /\ t3 < M /\ rl < M /\ rh < M>>
\* i256_div_mod_floor(x1, x2, y), y > 0: <<isSome, q, r>>
DivModFloor(x1, x2, y) ==
  LET p == Mul(Abs(x1), Abs(x2))  f == Full(p[1], p[2], y)  q == f[2]  r == f[3]  neg == (x1 < 0) # (x2 < 0) IN
  IF f[1] # 0 \/ q > IMAX THEN <<FALSE, 0, 0>>
  ELSE IF ~neg THEN <<TRUE, q, r>>
  ELSE IF Variant = "f1" THEN <<TRUE, 0 - q - 1, y - r>>
  ELSE IF r = 0 THEN <<TRUE, 0 - q, 0>> ELSE <<TRUE, 0 - q - 1, y - r>>
VARIABLES x1, x2, y
Init == x1 \in (0 - IMAX)..IMAX /\ x2 = 0 /\ y = 0
Next == y = 0 /\ x2' \in (0 - IMAX)..IMAX /\ y' \in 1..IMAX /\ UNCHANGED x1
Correct == y = 0 \/ LET res == DivModFloor(x1, x2, y) IN S!WideOk(x1 * x2, y, res[1], res[2], res[3])
MulCorrect == y = 0 \/ LET p == Mul(Abs(x1), Abs(x2)) IN p[3] /\ p[1] * M + p[2] = Abs(x1) * Abs(x2)
\* the unsigned core on every (xh, xl, y) the signed entry can form is covered by Correct; additionally the
\* no-add-back argument: the special division is exact for every xh < y (not only products)
=======================================================================
