import sys, struct, math
from fractions import Fraction
def nearest(fr, fbits, ebits):
    # correctly rounded float bits of fraction fr (nonzero handled)
    if fr == 0: return 0
    sign = 1 if fr < 0 else 0
    a = abs(fr)
    bias = (1 << (ebits-1)) - 1
    # find e with 2^e <= a < 2^(e+1)
    e = a.numerator.bit_length() - a.denominator.bit_length()
    if Fraction(2)**e > a: e -= 1
    if Fraction(2)**(e+1) <= a: e += 1
    assert Fraction(2)**e <= a < Fraction(2)**(e+1)
    scaled = a / Fraction(2)**(e - fbits)   # in [2^fbits, 2^(fbits+1))
    m = scaled.numerator // scaled.denominator
    rem = scaled - m
    if rem > Fraction(1,2) or (rem == Fraction(1,2) and m & 1): m += 1
    if m == 1 << (fbits+1): m >>= 1; e += 1
    return (sign << (fbits+ebits)) | ((e + bias) << fbits) | (m - (1 << fbits))
def fval(bits, fbits, ebits):
    sign = bits >> (fbits+ebits); ex = (bits >> fbits) & ((1<<ebits)-1); fr = bits & ((1<<fbits)-1)
    bias = (1 << (ebits-1)) - 1
    if ex == (1<<ebits)-1: return None if fr else 'inf'
    if ex == 0: v = Fraction(fr, 1) * Fraction(2)**(1-bias-fbits)
    else: v = Fraction(fr + (1<<fbits)) * Fraction(2)**(ex-bias-fbits)
    return -v if sign else v
def dec_from(v):
    # expected (coeff, scale) or 'ovf'
    q = v * 10**18
    n = q.numerator // q.denominator  # floor
    rem = q - n
    if rem > Fraction(1,2) or (rem == Fraction(1,2) and n & 1): n += 1
    s = 18
    if n == 0: return (0,0)
    while s > 0 and n % 10 == 0: n //= 10; s -= 1
    if not (-(1<<127) <= n <= (1<<127)-1): return 'ovf'
    return (n, s)
bad = {}
cnt = {}
for line in open('/root/scratch/probe/out.txt'):
    p = line.split()
    k = p[0]; cnt[k] = cnt.get(k,0)+1
    if k == 'F':
        c, s = int(p[1]), int(p[2]); fr = Fraction(c, 10**s)
        e64 = nearest(fr, 52, 11); e32 = nearest(fr, 23, 8)
        if e64 != int(p[3]): bad.setdefault('F64',[]).append((c,s,int(p[3]),e64))
        if e32 != int(p[4]): bad.setdefault('F32',[]).append((c,s,int(p[4]),e32))
    elif k in ('T64','T32'):
        fb, eb = (52,11) if k=='T64' else (23,8)
        v = fval(int(p[1]), fb, eb)
        if v is None: exp = ('err','NotANumber')
        elif v == 'inf': exp = ('err','InfiniteValue')
        else:
            d = dec_from(v)
            exp = ('err','InternalOverflow') if d == 'ovf' else ('ok', d[0], d[1])
        got = ('err', p[3]) if p[2]=='err' else ('ok', int(p[3]), int(p[4]))
        if got != exp: bad.setdefault(k,[]).append((p[1], got, exp))
    elif k == 'M':
        c, s, mag, n, dn = map(int, p[1:])
        fr = Fraction(c, 10**s)
        em = 0 if c == 0 else len(str(abs(c))) - 1 - s
        if mag != em: bad.setdefault('MAG',[]).append((c,s,mag,em))
        if (n, dn) != (fr.numerator, fr.denominator): bad.setdefault('RATIO',[]).append((c,s,n,dn))
print(cnt)
for k,v in bad.items(): print(k, len(v), v[:5])
