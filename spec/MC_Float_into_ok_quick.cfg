INIT Init
NEXT Next
CONSTANTS WB = 16
 FB = 3
 CMax = 1200
 MaxFracP = 2
 Variant = "ok"
 Dir = "into"
INVARIANT Correct
CHECK_DEADLOCK FALSE
