use fpdec::*;
use std::collections::HashMap;
use std::io::{BufRead, BufReader};
use std::sync::mpsc::{channel, Sender, Receiver};
use std::thread;
enum Cmd { Set(RoundingMode), Round, Spawn(String, Receiver<Cmd>, Sender<Vec<i128>>), Quit }
fn mode(s: &str) -> RoundingMode { match s { "HalfEven" => RoundingMode::RoundHalfEven, "HalfUp" => RoundingMode::RoundHalfUp, "Down" => RoundingMode::RoundDown, _ => panic!() } }
fn worker(rx: Receiver<Cmd>, tx: Sender<Vec<i128>>) {
    let mut children = vec![];
    loop {
        match rx.recv().unwrap() {
            Cmd::Set(m) => { RoundingMode::set_default(m); tx.send(vec![]).unwrap(); }
            Cmd::Round => { let a = Decimal::new_raw(25, 1).round(0).coefficient(); let b = Decimal::new_raw(35, 1).round(0).coefficient(); tx.send(vec![a, b]).unwrap(); }
            Cmd::Spawn(_name, crx, ctx) => { children.push(thread::spawn(move || worker(crx, ctx))); tx.send(vec![]).unwrap(); }
            Cmd::Quit => { break; }
        }
    }
    for c in children { c.join().unwrap(); }
}
fn main() {
    let f = std::fs::File::open(std::env::args().nth(1).unwrap()).unwrap();
    let (mut n, mut steps, mut bad) = (0u64, 0u64, 0u64);
    let t0 = std::time::Instant::now();
    for line in BufReader::new(f).lines() {
        let sched: Vec<serde_json::Value> = serde_json::from_str(&line.unwrap()).unwrap();
        n += 1;
        // the model's first thread is run by a fresh real thread too, so that every schedule starts from a new thread
        let mut chans: HashMap<String, (Sender<Cmd>, Receiver<Vec<i128>>)> = HashMap::new();
        let (tx, rx) = channel(); let (rtx, rrx) = channel();
        let root = thread::spawn(move || worker(rx, rtx));
        let first = sched.iter().map(|e| e["t"].as_str().unwrap().to_string()).next().unwrap_or("t1".into());
        // main thread name: the only alive thread initially is the model's Main; find it: first actor must be alive => it's Main
        chans.insert(first.clone(), (tx, rrx));
        for e in &sched {
            steps += 1;
            let t = e["t"].as_str().unwrap();
            let (tx, rx) = chans.get(t).expect("actor must be alive");
            match e["a"].as_str().unwrap() {
                "set" => { tx.send(Cmd::Set(mode(e["m"].as_str().unwrap()))).unwrap(); rx.recv().unwrap(); }
                "round" => { tx.send(Cmd::Round).unwrap(); let got = rx.recv().unwrap(); let want: Vec<i128> = e["r"].as_array().unwrap().iter().map(|v| v.as_i64().unwrap() as i128).collect(); if got != want { bad += 1; } }
                "spawn" => { let c = e["c"].as_str().unwrap().to_string(); let (ctx, crx) = channel(); let (crtx, crrx) = channel(); tx.send(Cmd::Spawn(c.clone(), crx, crtx)).unwrap(); rx.recv().unwrap(); chans.insert(c, (ctx, crrx)); }
                _ => unreachable!() }
        }
        for (_, (tx, _)) in chans.iter() { let _ = tx.send(Cmd::Quit); }
        root.join().unwrap();
    }
    println!("schedules {n} steps {steps} mismatches {bad} in {:?}", t0.elapsed());
}
