INIT Init
NEXT Next
CONSTANT CMax = 30
CONSTANT Variant = "floor_sign"
INVARIANT KernelRefines
INVARIANT DivRoundedRefines
INVARIANT AddSubRefines
INVARIANT CmpRefines
INVARIANT RemRefines
INVARIANT MulRefines
INVARIANT RoundRefines
INVARIANT DivRefines
INVARIANT QuantizeRefines
INVARIANT RatioRefines
INVARIANT UnaryRefines
INVARIANT IntoIntRefines
CHECK_DEADLOCK FALSE
