---------------------------- MODULE FpDec ----------------------------
(* WHAT the fpdec API must compute: for every public operation a predicate  *)
(* "outcome o is allowed for these arguments (under this rounding mode)",   *)
(* written from the documented mathematics (exact integers/rationals and    *)
(* the meaning of the eight rounding modes), not from the Rust algorithms.  *)
(* Exactly as loose as the property statements C01..C17 (DESIGN.md 6).      *)
(*                                                                          *)
(* Parametrised over the integer domain: instantiated with TLC's native Int *)
(* (NatInt, miniature constants, exhaustive checks) and with BigInt (real   *)
(* constants 2^127, 10^18; trace validation and vector generation).         *)
EXTENDS Naturals
CONSTANTS ZAdd(_,_), ZSub(_,_), ZMul(_,_), ZCmp(_,_), ZFloorDivMod(_,_), ZLit(_), ZNeg(_), ZAbs(_),
          ZSign(_), ZIsEven(_), ZMod5Is0(_), ZPow10(_), ZPow2(_), ZDigits(_)
CONSTANTS MaxFrac,    \* maximal number of fractional digits (18)
          CoeffBits,  \* coefficient range is -2^CoeffBits .. 2^CoeffBits-1 (127)
          CoeffMax, CoeffMin, MaxDigits   \* = 2^CoeffBits-1, -2^CoeffBits, decimal digits of CoeffMax: passed in as values so that
                                          \* TLC evaluates them once (checked by the ASSUME below)

Modes == {"Round05Up","RoundCeiling","RoundDown","RoundFloor","RoundHalfDown","RoundHalfEven","RoundHalfUp","RoundUp"}
Zero == ZLit(0)
One == ZLit(1)
Two == ZLit(2)
ASSUME ZCmp(CoeffMax, ZSub(ZPow2(CoeffBits), One)) = 0 /\ ZCmp(CoeffMin, ZNeg(ZPow2(CoeffBits))) = 0 /\ MaxDigits = ZDigits(CoeffMax)
ZEq(a, b) == ZCmp(a, b) = 0
InRange(z) == ZCmp(CoeffMin, z) <= 0 /\ ZCmp(z, CoeffMax) <= 0
Scale(c, k) == IF k = 0 THEN c ELSE ZMul(c, ZPow10(k))
Max(a, b) == IF a > b THEN a ELSE b
IsMult10(z) == ZIsEven(z) /\ ZMod5Is0(z)

(* ---- values and outcomes ---- *)
Dec(c, f) == [c |-> c, f |-> f]
Ret(c, f) == [k |-> "ret", c |-> c, f |-> f]
Fail == [k |-> "fail", c |-> Zero, f |-> 0]
IsFail(o) == o.k = "fail"
IsRet(o, c, f) == o.k = "ret" /\ o.f = f /\ ZEq(o.c, c)
\* any representation (scale 0..MaxFrac, coefficient in range) of the value c / 10^f
SameValue(o, c, f) == o.k = "ret" /\ o.f <= MaxFrac /\ InRange(o.c) /\ ZEq(Scale(o.c, f), Scale(c, o.f))
\* coefficient c at scale f, or the overflow signal iff c is outside the coefficient range;
\* exactly -2^CoeffBits is inside i128 but outside Decimal::MIN..=MAX: either answer
RetOrFail(o, c, f) == IF InRange(c) THEN IsRet(o, c, f) \/ (ZEq(c, CoeffMin) /\ IsFail(o)) ELSE IsFail(o)
RetOrFailStrict(o, c, f) == IF InRange(c) THEN IsRet(o, c, f) ELSE IsFail(o)
IsZeroD(x) == ZSign(x.c) = 0
IsOneD(x) == ZEq(x.c, ZPow10(x.f))

(* ---- rounding: exact n/d (d > 0) to an integer, from the documented meaning of the modes ---- *)
RoundQ(n, d, mode) ==
  LET qr == ZFloorDivMod(n, d)  fl == qr[1]  r == qr[2]  up == ZAdd(fl, One)
      tz == IF ZSign(n) >= 0 THEN fl ELSE up          \* towards zero
      az == IF ZSign(n) >= 0 THEN up ELSE fl          \* away from zero
      h  == ZCmp(ZMul(Two, r), d)
      nearest(tie) == IF h > 0 THEN up ELSE IF h < 0 THEN fl ELSE tie
  IN IF ZSign(r) = 0 THEN fl ELSE
     CASE mode = "RoundFloor" -> fl [] mode = "RoundCeiling" -> up
       [] mode = "RoundDown" -> tz [] mode = "RoundUp" -> az
       [] mode = "RoundHalfUp" -> nearest(az) [] mode = "RoundHalfDown" -> nearest(tz)
       [] mode = "RoundHalfEven" -> nearest(IF ZIsEven(fl) THEN fl ELSE up)
       [] mode = "Round05Up" -> IF ZMod5Is0(tz) THEN az ELSE tz
RoundQS(n, d, mode) == IF ZSign(d) < 0 THEN RoundQ(ZNeg(n), ZNeg(d), mode) ELSE RoundQ(n, d, mode)

(* ---- C01: + - += -= checked_add checked_sub (integers enter as Dec(i, 0)) ---- *)
AddSubOk(x, y, neg, o) ==
  LET m == Max(x.f, y.f)  a == Scale(x.c, m - x.f)  b == Scale(y.c, m - y.f)
      s == IF neg THEN ZSub(a, b) ELSE ZAdd(a, b)
  IN IF InRange(a) /\ InRange(b) THEN RetOrFailStrict(o, s, m) ELSE IsFail(o)

(* ---- C02: * *= checked_mul ---- *)
ShortCutOk(x, y, o) ==     \* Decimal x Decimal: operand equal to zero or one, scale is free
  \/ (IsZeroD(x) \/ IsZeroD(y)) /\ SameValue(o, Zero, 0)
  \/ IsOneD(x) /\ SameValue(o, y.c, y.f)
  \/ IsOneD(y) /\ SameValue(o, x.c, x.f)
MulDecOk(x, y, mode, o) ==
  LET pq == x.f + y.f  prod == ZMul(x.c, y.c) IN
  \/ ShortCutOk(x, y, o)
  \/ IF pq <= MaxFrac THEN RetOrFail(o, prod, pq)
     ELSE RetOrFail(o, RoundQ(prod, ZPow10(pq - MaxFrac), mode), MaxFrac)
\* checked_mul: "the exact product or None" - the statement pins the value, not the representation
CheckedMulDecOk(x, y, o) ==
  LET pq == x.f + y.f  prod == ZMul(x.c, y.c) IN
  \/ ShortCutOk(x, y, o)
  \/ IF pq <= MaxFrac THEN SameValue(o, prod, pq) \/ (IsFail(o) /\ (~InRange(prod) \/ ZEq(prod, CoeffMin)))
     ELSE IsFail(o)
\* Decimal d by integer i (either position; operator and checked form): exact at d's scale
MulIntOk(d, i, o) == RetOrFail(o, ZMul(d.c, i), d.f)

(* ---- C03: / /= checked_div ---- *)
Normalised(o) == IF ZSign(o.c) = 0 THEN o.f = 0 ELSE o.f = 0 \/ ~IsMult10(o.c)
DivOk(x, y, mode, o) ==
  IF IsZeroD(y) THEN IsFail(o)
  ELSE IF IsOneD(y) THEN IsRet(o, x.c, x.f) \/ (IsZeroD(x) /\ IsRet(o, Zero, 0))
  ELSE LET q == RoundQS(Scale(x.c, MaxFrac + y.f), Scale(y.c, x.f), mode) IN
       IF InRange(q) THEN (SameValue(o, q, MaxFrac) /\ Normalised(o)) \/ (ZEq(q, CoeffMin) /\ IsFail(o))
       ELSE IsFail(o)

(* ---- C04: div_rounded mul_rounded quantize ---- *)
ZeroUpTo(o, n) == o.k = "ret" /\ ZSign(o.c) = 0 /\ o.f <= n
DivRoundedOk(x, y, n, mode, o) ==
  IF n > MaxFrac \/ IsZeroD(y) THEN IsFail(o)
  ELSE LET q == RoundQS(Scale(x.c, n + y.f), Scale(y.c, x.f), mode) IN
       RetOrFail(o, q, n) \/ (ZSign(q) = 0 /\ ZeroUpTo(o, n))
MulRoundedOk(x, y, n, mode, o) ==
  IF n > MaxFrac THEN IsFail(o)
  ELSE LET pq == x.f + y.f  prod == ZMul(x.c, y.c) IN
       IF n >= pq
       THEN \/ RetOrFail(o, prod, pq)
            \/ (InRange(Scale(prod, n - pq)) /\ IsRet(o, Scale(prod, n - pq), n))
            \/ (ZSign(prod) = 0 /\ ZeroUpTo(o, n))
       ELSE LET q == RoundQ(prod, ZPow10(pq - n), mode) IN
            RetOrFail(o, q, n) \/ (ZSign(q) = 0 /\ ZeroUpTo(o, n))
\* x.quantize(u): the integer multiple of u nearest to x; representation free
QuantizeOk(x, u, mode, o) ==
  IF IsZeroD(u) THEN IsFail(o)
  ELSE LET t == RoundQS(Scale(x.c, u.f), Scale(u.c, x.f), mode)  v == ZMul(t, u.c) IN
       \/ SameValue(o, v, u.f)
       \/ (IsFail(o) /\ (~InRange(t) \/ ~InRange(v) \/ ZEq(t, CoeffMin) \/ ZEq(v, CoeffMin)))

(* ---- C05: round checked_round, the integer rounding kernel ---- *)
RoundOk(x, n, mode, o) ==          \* n in -128..127
  IF n >= x.f THEN IsRet(o, x.c, x.f)
  ELSE LET v == RoundQ(x.c, ZPow10(x.f - n), mode) IN
       IF n >= 0 THEN SameValue(o, v, n)
       ELSE IF ZSign(v) = 0 THEN SameValue(o, Zero, 0)
       ELSE IF 0 - n > MaxDigits THEN IsFail(o)
       ELSE LET w == Scale(v, 0 - n) IN
            IF InRange(w) THEN SameValue(o, w, 0) \/ (ZEq(w, CoeffMin) /\ IsFail(o)) ELSE IsFail(o)
KernelOk(n, d, mode, o) ==          \* i128_div_rounded(n, d, Some(mode)), d # 0
  LET q == RoundQS(n, d, mode) IN IF InRange(q) THEN IsRet(o, q, 0) ELSE TRUE

(* ---- C08: comparison by exact value ---- *)
CmpVal(x, y) == ZCmp(Scale(x.c, y.f), Scale(y.c, x.f))

(* ---- C10: remainder of truncated division ---- *)
RemValue(x, y) ==   \* <<r, m>>: remainder coefficient at scale m = max(p, q)
  LET m == Max(x.f, y.f)  a == Scale(x.c, m - x.f)  b == Scale(y.c, m - y.f)
      r0 == ZFloorDivMod(ZAbs(a), ZAbs(b))[2]
  IN <<IF ZSign(a) < 0 THEN ZNeg(r0) ELSE r0, m>>
RemOk(x, y, o) ==
  IF IsZeroD(y) THEN IsFail(o)
  ELSE LET rm == RemValue(x, y) IN
       \/ (SameValue(o, rm[1], rm[2]) /\ o.f <= rm[2])
       \/ (IsFail(o) /\ x.f < y.f /\ ~InRange(Scale(x.c, y.f - x.f)))

(* ---- C15: unary operations ---- *)
FloorVal(x) == ZFloorDivMod(x.c, ZPow10(x.f))[1]
CeilVal(x) == LET qr == ZFloorDivMod(x.c, ZPow10(x.f)) IN IF ZSign(qr[2]) = 0 THEN qr[1] ELSE ZAdd(qr[1], One)
TruncVal(x) == IF ZSign(x.c) >= 0 THEN FloorVal(x) ELSE CeilVal(x)
FractCoeff(x) == ZSub(x.c, Scale(TruncVal(x), x.f))
MagnitudeVal(x) == IF ZSign(x.c) = 0 THEN 0 ELSE ZDigits(x.c) - 1 - x.f     \* a TLC integer

(* ---- C09: the reduced fraction ---- *)
Half(z) == ZFloorDivMod(z, Two)[1]
Fifth(z) == ZFloorDivMod(z, ZLit(5))[1]
RECURSIVE Reduce(_,_,_)
Reduce(c, a, b) ==   \* c / (2^a 5^b) in lowest terms: <<numerator, a', b'>>
  IF a > 0 /\ ZIsEven(c) THEN Reduce(Half(c), a - 1, b)
  ELSE IF b > 0 /\ ZMod5Is0(c) THEN Reduce(Fifth(c), a, b - 1)
  ELSE <<c, a, b>>
RECURSIVE Pow5(_)
Pow5(k) == IF k = 0 THEN One ELSE ZMul(ZLit(5), Pow5(k - 1))
Ratio(x) == IF ZSign(x.c) = 0 THEN <<Zero, One>>
            ELSE LET r == Reduce(x.c, x.f, x.f) IN <<r[1], ZMul(ZPow2(r[2]), Pow5(r[3]))>>

(* ---- C14: integer conversions; an integer type is its range <<lo, hi>> ---- *)
IsIntegral(x) == ZSign(ZFloorDivMod(x.c, ZPow10(x.f))[2]) = 0
\* "ok" v | "NotAnIntValue" | "ValueOutOfRange"
IntoIntKind(x, lo, hi) == IF ~IsIntegral(x) THEN "NotAnIntValue"
                          ELSE IF ZCmp(lo, FloorVal(x)) <= 0 /\ ZCmp(FloorVal(x), hi) <= 0 THEN "ok" ELSE "ValueOutOfRange"

(* ---- C16: the wide primitives: n = q*m + r, 0 <= r < m (m >= 1), None iff q outside i128 ---- *)
WideOk(n, m, isSome, q, r) ==
  LET qr == ZFloorDivMod(n, m) IN
  IF InRange(qr[1]) THEN (isSome /\ ZEq(q, qr[1]) /\ ZEq(r, qr[2])) \/ (ZEq(qr[1], CoeffMin) /\ ~isSome)
  ELSE ~isSome
WideRoundedOk(n, m, mode, isSome, q) ==
  LET v == RoundQ(n, m, mode)  fl == ZFloorDivMod(n, m)[1] IN
  IF InRange(fl) /\ InRange(v) THEN (isSome /\ ZEq(q, v)) \/ ((ZEq(fl, CoeffMin) \/ ZEq(v, CoeffMin)) /\ ~isSome)
  ELSE IF InRange(v) THEN (isSome /\ ZEq(q, v)) \/ ~isSome     \* floor quotient outside, rounded value inside: either
  ELSE ~isSome
=======================================================================
