INIT Init
NEXT Next
CONSTANTS W = 4
 Variant = "ok"
INVARIANT Correct
CHECK_DEADLOCK FALSE
