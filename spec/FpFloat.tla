---------------------------- MODULE FpFloat ----------------------------
(* C12 C13: conversions between Decimal and IEEE-754 binary32 / binary64, *)
(* defined on exact rationals; a float is its fields                       *)
(* [sign |-> 0|1, bexp |-> biased exponent, frac |-> BigInt fraction].     *)
EXTENDS BigInt
CONSTANTS MaxFrac, CoeffBits
F1 == BLit(1)
F2 == BLit(2)
CoeffMaxF == IF CoeffBits = 127 THEN I128MaxLit ELSE BSub(BPow2(CoeffBits), F1)
RoundHalfEven(n, d) == LET qr == BFloorDivMod(n, d)  h == BCmp(BMul(F2, qr[2]), d) IN
   IF h > 0 \/ (h = 0 /\ ~BIsEven(qr[1])) THEN BAdd(qr[1], F1) ELSE qr[1]

(* ---- C12: Decimal -> float, nearest, ties to even ---- *)
\* largest e in lo..hi with 2^e * den <= num (num, den > 0), by bisection
Scaled(num, den, e) == IF e >= 0 THEN BCmp(BMul(BPow2(e), den), num) <= 0 ELSE BCmp(den, BMul(BPow2(0 - e), num)) <= 0
RECURSIVE FindE(_,_,_,_)
FindE(num, den, lo, hi) == IF lo = hi THEN lo ELSE
   LET mid == (lo + hi + 1) \div 2 IN IF Scaled(num, den, mid) THEN FindE(num, den, mid, hi) ELSE FindE(num, den, lo, mid - 1)
\* FB fraction bits, Bias exponent bias; the Decimal range keeps every result a normal number
ToFloat(c, f, FB, Bias) ==
  IF c.s = 0 THEN [sign |-> 0, bexp |-> 0, frac |-> Z0] ELSE
  LET num == BAbs(c)  den == BPow10(f)
      e == FindE(num, den, -70, 130)
      sh == FB - e
      m0 == IF sh >= 0 THEN RoundHalfEven(BMul(num, BPow2(sh)), den) ELSE RoundHalfEven(num, BMul(den, BPow2(0 - sh)))
      carry == BCmp(m0, BPow2(FB + 1)) = 0
      m == IF carry THEN BPow2(FB) ELSE m0
      e2 == IF carry THEN e + 1 ELSE e
  IN [sign |-> IF c.s < 0 THEN 1 ELSE 0, bexp |-> e2 + Bias, frac |-> BSub(m, BPow2(FB))]

(* ---- C13: float -> Decimal ---- *)
\* <<kind, c, f>>, kind in {"NotANumber","InfiniteValue","InternalOverflow","ok","ok_or_overflow"}
\* ("ok_or_overflow": the value is exactly -2^CoeffBits, inside i128 but outside Decimal::MIN..=MAX - either answer)
NormPair(c, f) ==  \* strip trailing fractional zeros
  LET RECURSIVE N(_,_)
      N(cc, ff) == IF cc.s = 0 THEN <<Z0, 0>>
                   ELSE IF ff > 0 /\ cc.m[1] % 10 = 0 THEN N(Mk(cc.s, NDivSmall(cc.m, 10)[1]), ff - 1) ELSE <<cc, ff>>
  IN N(c, f)
FromFloat(sign, bexp, frac, FB, EBmax, Bias) ==
  IF bexp = EBmax THEN (IF frac.s = 0 THEN <<"InfiniteValue", Z0, 0>> ELSE <<"NotANumber", Z0, 0>>)
  ELSE
  LET m == IF bexp = 0 THEN frac ELSE BAdd(frac, BPow2(FB))
      e == IF bexp = 0 THEN 1 - Bias - FB ELSE bexp - Bias - FB
  IN IF m.s = 0 THEN <<"ok", Z0, 0>>
     ELSE IF e > CoeffBits THEN <<"InternalOverflow", Z0, 0>>        \* |value| >= 2^(CoeffBits+1)
     ELSE IF e < 0 - 140 THEN <<"ok", Z0, 0>>                        \* |value| * 10^18 < 2^(FB+1+60-140) < 1/2
     ELSE LET q == IF e >= 0 THEN BMul(BMul(m, BPow2(e)), BPow10(MaxFrac))
                   ELSE RoundHalfEven(BMul(m, BPow10(MaxFrac)), BPow2(0 - e))
              np == NormPair(IF sign = 1 THEN BNeg(q) ELSE q, MaxFrac)
          IN IF np[1] = BNeg(BPow2(CoeffBits)) THEN <<"ok_or_overflow", np[1], np[2]>>
             ELSE IF BCmp(BAbs(np[1]), CoeffMaxF) > 0 THEN <<"InternalOverflow", Z0, 0>> ELSE <<"ok", np[1], np[2]>>
=======================================================================
