---- MODULE ParseGen ----
\* Spike: literal grammar recogniser over byte sequences + exhaustive enumeration (direction G)
EXTENDS Integers, Sequences, TLC, Json
CONSTANTS MaxLen
Alphabet == {48, 49, 53, 57, 46, 101, 69, 43, 45, 32, 120, 95, 195}   \* 0 1 5 9 . e E + - sp x _ 0xC3
IsDigit(b) == 48 <= b /\ b <= 57
RECURSIVE Span(_,_)              \* first index >= i that is not a digit (Len+1 if none)
Span(bs, i) == IF i <= Len(bs) /\ IsDigit(bs[i]) THEN Span(bs, i+1) ELSE i
RECURSIVE Val(_,_,_,_)           \* value of digits bs[i..j-1], saturating at Cap
Cap == 2000000000
Val(bs, i, j, acc) == IF i >= j THEN acc ELSE
   LET v == IF acc > 200000000 THEN Cap ELSE acc * 10 + (bs[i] - 48) IN Val(bs, i+1, j, IF v > Cap THEN Cap ELSE v)
MaxCoeff == 2147483647          \* miniature stand-in for 2^127-1 in this native-Int spike
Parse(bs) ==
  LET n == Len(bs)
      hasSign == n >= 1 /\ bs[1] \in {43, 45}
      neg == n >= 1 /\ bs[1] = 45
      i1 == IF hasSign THEN 2 ELSE 1
      i2 == Span(bs, i1)
      hasDot == i2 <= n /\ bs[i2] = 46
      i3 == IF hasDot THEN Span(bs, i2 + 1) ELSE i2
      intLen == i2 - i1
      fl == IF hasDot THEN i3 - (i2 + 1) ELSE 0
      mantOk == intLen > 0 \/ fl > 0
      hasE == i3 <= n /\ bs[i3] \in {101, 69}
      eSign == hasE /\ i3 + 1 <= n /\ bs[i3+1] \in {43, 45}
      eNeg == eSign /\ bs[i3+1] = 45
      i4 == IF hasE THEN (IF eSign THEN i3 + 2 ELSE i3 + 1) ELSE i3
      i5 == IF hasE THEN Span(bs, i4) ELSE i3
      expOk == ~hasE \/ i5 > i4
      e0 == IF hasE THEN Val(bs, i4, i5, 0) ELSE 0
      e == IF eNeg THEN -e0 ELSE e0
      digits == Val(bs, i1, i2, 0) * 10^fl + (IF hasDot THEN Val(bs, i2+1, i3, 0) ELSE 0)
      nf == IF fl - e > 0 THEN fl - e ELSE 0
      up == IF e - fl > 0 THEN e - fl ELSE 0
  IN IF n = 0 THEN [k |-> "empty", c |-> 0, f |-> 0]
     ELSE IF ~(mantOk /\ expOk /\ i5 = n + 1) THEN [k |-> "err", c |-> 0, f |-> 0]
     ELSE IF nf > 18 THEN [k |-> "err", c |-> 0, f |-> 0]
     ELSE IF digits = 0 THEN [k |-> "ok", c |-> 0, f |-> nf]
     ELSE IF up > 8 \/ digits > 21 \/ digits * 10^up > MaxCoeff THEN [k |-> "err", c |-> 0, f |-> 0]
     ELSE [k |-> "ok", c |-> (IF neg THEN -1 ELSE 1) * digits * 10^up, f |-> nf]
VARIABLE bs
Init == bs = <<>>
Next == Len(bs) < MaxLen /\ \E b \in Alphabet : bs' = Append(bs, b)
Emit == PrintT("REPLAY " \o ToJson([s |-> bs, exp |-> Parse(bs)]))
====
