---------------------------- MODULE AP_Round ----------------------------
(* Unbounded in the numerator: the rounding function of the oracle (a native *)
(* copy of FpDec!RoundQ; TLC checks the two equal on the bounded domain in   *)
(* MC_SpecLaws, invariant NativeCopy) satisfies the declarative definition   *)
(* of all eight modes for EVERY integer n (symbolic, Apalache / Z3) and every *)
(* divisor of DSet.  Run: apalache-mc check --length=0 --inv=Laws AP_Round.tla *)
(* (and --inv=Sticky: the single-rounding lemma of the div_rounded repair).   *)
EXTENDS Integers

VARIABLES
  \* @type: Int;
  n,
  \* @type: Int;
  d

DSet == {1, 2, 3, 4, 5, 7, 8, 10, 16, 20, 25, 100, 125, 1000, 1024, 1000000, 1000000007}
Modes == {"Round05Up", "RoundCeiling", "RoundDown", "RoundFloor", "RoundHalfDown", "RoundHalfEven", "RoundHalfUp", "RoundUp"}

\* @type: (Int) => Int;
Abs(z) == IF z < 0 THEN 0 - z ELSE z

\* @type: (Int, Int, Str) => Int;
RoundQ(nn, dd, mode) ==
  LET fl == nn \div dd
      r == nn % dd
      up == fl + 1
      tz == IF nn >= 0 THEN fl ELSE up
      az == IF nn >= 0 THEN up ELSE fl
      h == 2 * r - dd
      nearest(tie) == IF h > 0 THEN up ELSE IF h < 0 THEN fl ELSE tie
  IN IF r = 0 THEN fl ELSE
     IF mode = "RoundFloor" THEN fl ELSE IF mode = "RoundCeiling" THEN up
     ELSE IF mode = "RoundDown" THEN tz ELSE IF mode = "RoundUp" THEN az
     ELSE IF mode = "RoundHalfUp" THEN nearest(az) ELSE IF mode = "RoundHalfDown" THEN nearest(tz)
     ELSE IF mode = "RoundHalfEven" THEN nearest(IF fl % 2 = 0 THEN fl ELSE up)
     ELSE (IF tz % 5 = 0 THEN az ELSE tz)

\* @type: (Int, Str) => Bool;
Declarative(q, mode) ==
  LET fl == n \div d
      tie == 2 * (n % d) = d
      nearest == Abs(n - q * d) <= Abs(n - fl * d) /\ Abs(n - q * d) <= Abs(n - (fl + 1) * d)
      tz == IF n >= 0 THEN Abs(n) \div d ELSE 0 - (Abs(n) \div d)
  IN /\ (q = fl \/ q = fl + 1) /\ (n % d = 0 => q = fl)
     /\ (mode = "RoundCeiling" => (q * d >= n /\ (q - 1) * d < n))
     /\ (mode = "RoundFloor" => (q * d <= n /\ (q + 1) * d > n))
     /\ (mode = "RoundDown" => (Abs(q * d) <= Abs(n) /\ Abs(n) - Abs(q * d) < d))
     /\ (mode = "RoundUp" => (Abs(q * d) >= Abs(n) /\ Abs(q * d) - Abs(n) < d))
     /\ (mode = "RoundHalfUp" => (nearest /\ (tie => Abs(q) = (Abs(n) \div d) + 1)))
     /\ (mode = "RoundHalfDown" => (nearest /\ (tie => Abs(q) = Abs(n) \div d)))
     /\ (mode = "RoundHalfEven" => (nearest /\ (tie => q % 2 = 0)))
     /\ (mode = "Round05Up" => (IF n % d # 0 /\ (Abs(tz) % 10 = 0 \/ Abs(tz) % 10 = 5)
                                 THEN Abs(q) = Abs(tz) + 1 /\ (q >= 0 <=> n >= 0) ELSE q = tz))

\* @type: (Int, Int) => Int;
TDiv(a, b) == IF a >= 0 THEN a \div b ELSE 0 - ((0 - a) \div b)          \* Rust's truncating division, b > 0

\* The sticky-bit lemma behind the repair of finding F2 (checked_div_rounded, dividend with more fractional digits than
\* requested + divisor's): when n / d is inexact, rounding (2 * trunc(n / d) +- 1) / (2 * T) gives, in every mode, the same
\* integer as rounding the exact quotient n / (d * T) once - for every integer n.
Sticky == \A mode \in Modes : \A T \in {10, 100, 1000} :
  (n % d # 0) => RoundQ(2 * TDiv(n, d) + (IF n >= 0 THEN 1 ELSE 0 - 1), 2 * T, mode) = RoundQ(n, d * T, mode)

Init == n \in Int /\ d \in DSet
Next == UNCHANGED <<n, d>>
Laws == \A mode \in Modes :
  /\ Declarative(RoundQ(n, d, mode), mode)
  /\ RoundQ(0 - n, d, mode) = 0 - RoundQ(n, d, IF mode = "RoundCeiling" THEN "RoundFloor" ELSE IF mode = "RoundFloor" THEN "RoundCeiling" ELSE mode)
=======================================================================
