INIT Init
NEXT Next
INVARIANT Native
INVARIANT Identities
CHECK_DEADLOCK FALSE
