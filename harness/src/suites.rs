// Drivers: per property a stream of call descriptions (inputs only; exec() adds what was observed)
use crate::enc::*;
use crate::gen::*;
use serde_json::{json, Value};

fn maybe_set(r: &mut Rng, t: u32, v: &mut Vec<Value>, one_in: u64) {
    if r.below(one_in) == 0 {
        v.push(set_mode(r, t));
    }
}

macro_rules! neg1 {
    ($r:expr, $c:expr) => {{
        let c: i128 = $c;
        if $r.bool() { -c } else { c }
    }};
}

/// C01: + - checked_add checked_sub, all operand types, compound assignment
pub fn c01(r: &mut Rng, t: u32, n: usize) -> Vec<Value> {
    let mut v = vec![];
    let ops = ["add", "sub", "checked_add", "checked_sub"];
    while v.len() < n {
        let op = *r.pick(&ops);
        match r.below(10) {
            0 | 1 => {
                // aligned sum at the i128 boundary: a + b in {MAX-1, MAX, MAX+1}
                let (p, q) = (r.below(19) as u32, r.below(19) as u32);
                let m = p.max(q);
                let delta = r.range(-1, 1) as i128;
                let b = 1 + r.below(1000) as i128;
                let bs = b * p10(m - q);            // b re-expressed with m digits (b < 1000, m-q <= 18: fits)
                let a = ((MAXC - bs) + delta) / p10(m - p);
                let (a, b) = if r.bool() { (a, b) } else { (-a, -b) };
                let (x, y) = if op.ends_with("sub") { (dj(a, p as u8), dj(-b, q as u8)) } else { (dj(a, p as u8), dj(b, q as u8)) };
                v.push(bin(t, op, x, "dec", y, "dec", 0, r.below(4)));
            }
            2 => {
                // operand that does / does not fit when re-expressed: floor(MAX/10^k)+{0,1}
                let k = 1 + r.below(18) as u32;
                let q = r.below(19 - k as u64) as u32;
                let c = neg1!(r, MAXC / p10(k) + r.below(2) as i128);
                let small = dj(r.range(-5, 5) as i128, (q + k) as u8);
                let big = dj(c, q as u8);
                if r.bool() { v.push(bin(t, op, big, "dec", small, "dec", 0, r.below(4))); } else { v.push(bin(t, op, small, "dec", big, "dec", 0, r.below(4))); }
            }
            3 => {
                // integer operand whose scaling overflows
                let f = 1 + r.below(18) as u32;
                let ty = if r.bool() { "i128" } else { "i64" };
                let i = if ty == "i128" { neg1!(r, MAXC / p10(f) + r.range(-1, 1) as i128) } else { int_value(r, ty) };
                let (c, _) = decimal(r);
                if r.bool() { v.push(bin(t, op, dj(c, f as u8), "dec", dj(i, 0), ty, 0, r.below(4))); } else { v.push(bin(t, op, dj(i, 0), ty, dj(c, f as u8), "dec", 0, r.below(4))); }
            }
            4 => {
                // accumulator history
                let (c, f) = decimal(r);
                v.push(json!({"ev": "accset", "t": t, "x": dj(c, f)}));
                for _ in 0..(1 + r.below(4)) {
                    let aop = if r.bool() { "add" } else { "sub" };
                    if r.bool() {
                        let (yc, yf) = decimal(r);
                        v.push(json!({"ev": "bin", "t": t, "op": aop, "x": dj(0, 0), "y": dj(yc, yf), "xt": "dec", "yt": "dec", "n": 0, "acc": 1, "form": r.below(2)}));
                    } else {
                        let ty = int_type(r);
                        v.push(json!({"ev": "bin", "t": t, "op": aop, "x": dj(0, 0), "y": dj(int_value(r, ty), 0), "xt": "dec", "yt": ty, "n": 0, "acc": 1, "form": r.below(2)}));
                    }
                }
            }
            _ => {
                let (x, xt, y, yt) = operand_pair(r, false);
                v.push(bin(t, op, x, xt, y, yt, 0, r.below(4)));
            }
        }
    }
    v
}

/// C02: * *= checked_mul under every mode
pub fn c02(r: &mut Rng, t: u32, n: usize) -> Vec<Value> {
    let mut v = vec![];
    while v.len() < n {
        maybe_set(r, t, &mut v, 4);
        let op = if r.below(3) == 0 { "checked_mul" } else { "mul" };
        match r.below(10) {
            0 | 1 | 2 => {
                // tie / near tie by construction: y = 5*10^(sh-1) (+-1), p+q = 18 + sh
                let sh = 1 + r.below(18) as u32;
                let p = (sh + r.below(19 - sh as u64) as u32).min(18);
                let q = 18 + sh - p;
                if q > 18 { continue; }
                let yc = 5 * p10(sh - 1) + [0, 0, 1, -1][r.below(4) as usize];
                let xc = match r.below(3) { 0 => r.below(100) as i128, 1 => (r.u128() >> (1 + r.below(100))) as i128, _ => MAXC / (5 * p10(sh - 1)) - r.below(5) as i128 };
                let (xc, yc) = sign2(r, xc, yc);
                if r.bool() { v.push(bin(t, op, dj(xc, p as u8), "dec", dj(yc, q as u8), "dec", 0, r.below(4))); } else { v.push(bin(t, op, dj(yc, q as u8), "dec", dj(xc, p as u8), "dec", 0, r.below(4))); }
            }
            3 => {
                // product beyond 128 bits with a representable rounded result
                let (p, q) = (10 + r.below(9) as u32, 10 + r.below(9) as u32);
                let sh = p + q - 18;
                let xc = (r.u128() >> (1 + r.below(40))) as i128;
                let lim = (MAXC / xc.max(1)).saturating_mul(p10(sh.min(20)));
                let yc = if lim <= 1 { 1 } else { ((r.u128() >> 1) as i128) % lim };
                let (xc, yc) = sign2(r, xc, yc);
                v.push(bin(t, op, dj(xc, p as u8), "dec", dj(yc, q as u8), "dec", 0, r.below(4)));
            }
            4 => {
                // exact product at the i128 boundary, p+q <= 18
                let p = r.below(10) as u32;
                let q = r.below(9) as u32;
                let yc = r.below(1000) as i128 + 2;
                let xc = MAXC / yc + r.range(-1, 1) as i128;
                let (xc, yc) = sign2(r, xc, yc);
                v.push(bin(t, op, dj(xc, p as u8), "dec", dj(yc, q as u8), "dec", 0, r.below(4)));
            }
            6 => {
                // structured operands 2^i 5^j m: products and quotients with zero limbs, results beyond i128
                let (p, q) = (r.below(19) as u8, r.below(19) as u8);
                let (pa, pb) = (pow25(r), pow25(r));
                let (xc, yc) = sign2(r, pa, pb);
                v.push(bin(t, op, dj(xc, p), "dec", dj(yc, q), "dec", 0, r.below(4)));
            }
            5 => {
                // compound assignment history
                let (c, f) = decimal(r);
                v.push(json!({"ev": "accset", "t": t, "x": dj(c, f)}));
                for _ in 0..(1 + r.below(3)) {
                    if r.bool() {
                        let (yc, yf) = decimal(r);
                        v.push(json!({"ev": "bin", "t": t, "op": "mul", "x": dj(0, 0), "y": dj(yc, yf), "xt": "dec", "yt": "dec", "n": 0, "acc": 1, "form": r.below(2)}));
                    } else {
                        let ty = int_type(r);
                        v.push(json!({"ev": "bin", "t": t, "op": "mul", "x": dj(0, 0), "y": dj(int_value(r, ty), 0), "xt": "dec", "yt": ty, "n": 0, "acc": 1, "form": r.below(2)}));
                    }
                }
            }
            _ => {
                let (x, xt, y, yt) = operand_pair(r, false);
                v.push(bin(t, op, x, xt, y, yt, 0, r.below(4)));
            }
        }
    }
    v
}

fn div_case(r: &mut Rng, n_out: u32) -> Option<(i128, u8, i128, u8)> {
    // x/y rounded to n_out digits: choose p, q; shift k = n_out + q - p
    let q = r.below(19) as u32;
    let p = r.below(19) as u32;
    if n_out + q < p {
        return None;
    }
    let k = n_out + q - p;
    let (x, y) = if r.below(3) == 0 { tie_construct(r, k) } else { div_construct(r, k) };
    let (x, y) = sign2(r, x, y);
    Some((x, p as u8, y, q as u8))
}

/// C03: / /= checked_div
pub fn c03(r: &mut Rng, t: u32, n: usize) -> Vec<Value> {
    let mut v = vec![];
    while v.len() < n {
        maybe_set(r, t, &mut v, 4);
        let op = if r.below(3) == 0 { "checked_div" } else { "div" };
        match r.below(12) {
            0 | 1 | 2 | 3 => {
                if let Some((x, p, y, q)) = div_case(r, 18) {
                    v.push(bin(t, op, dj(x, p), "dec", dj(y, q), "dec", 0, r.below(4)));
                }
            }
            4 => {
                // quotient at the i128 boundary: x / y * 10^18 near 2^127
                let yc = r.below(100000) as i128 + 1;
                let q = r.below(19) as u32;
                let p = r.below(19) as u32;
                // x*10^(18+q-p)/y ~ MAX  => x ~ MAX*y/10^(18+q-p)
                let k = 18 + q - p.min(18 + q);
                let xc = (MAXC / p10(k.min(38))).saturating_mul(yc).saturating_add(r.range(-2, 2) as i128);
                let (xc, yc) = sign2(r, clampc2(xc), yc);
                v.push(bin(t, op, dj(xc, p as u8), "dec", dj(yc, q as u8), "dec", 0, r.below(4)));
            }
            10 | 11 => {
                // Knuth-D adversarial operands through the public operator: k = 18 + q - p with p = 0
                if let Some((a, k, mm)) = knuth_shifted(r) {
                    if k < 18 || k > 36 { continue; }
                    let q = k - 18;
                    let (a, mm) = sign2(r, a, mm);
                    v.push(bin(t, op, dj(a, 0), "dec", dj(mm, q as u8), "dec", 0, r.below(4)));
                }
            }
            8 => {
                if let Some((a, k, mm)) = high_word_equals_divisor(r) {
                    // k = 18 + q - p with p = 0
                    let q = k - 18;
                    if q > 18 { continue; }
                    let (a, mm) = sign2(r, a, mm);
                    v.push(bin(t, op, dj(a, 0), "dec", dj(mm, q as u8), "dec", 0, r.below(4)));
                }
            }
            7 => {
                let (p, q) = (r.below(19) as u8, r.below(19) as u8);
                let (pa, pb) = (pow25(r), pow25(r));
                let (xc, yc) = sign2(r, pa, pb);
                v.push(bin(t, op, dj(xc, p), "dec", dj(yc, q), "dec", 0, r.below(4)));
            }
            6 => {
                // floor quotient = i128::MAX with a non-zero remainder: rounding up must signal overflow
                let (x, y, k) = max_quotient_construct(r);
                let q = r.below(16) as u32;
                let p = 18 + q - k;
                if p > 18 { continue; }
                let (x, y) = sign2(r, x, y);
                v.push(bin(t, op, dj(x, p as u8), "dec", dj(y, q as u8), "dec", 0, r.below(4)));
            }
            5 => {
                let (c, f) = decimal(r);
                v.push(json!({"ev": "accset", "t": t, "x": dj(c, f)}));
                for _ in 0..(1 + r.below(3)) {
                    if r.bool() {
                        let (yc, yf) = decimal(r);
                        v.push(json!({"ev": "bin", "t": t, "op": "div", "x": dj(0, 0), "y": dj(yc, yf), "xt": "dec", "yt": "dec", "n": 0, "acc": 1, "form": r.below(2)}));
                    } else {
                        let ty = int_type(r);
                        v.push(json!({"ev": "bin", "t": t, "op": "div", "x": dj(0, 0), "y": dj(int_value(r, ty), 0), "xt": "dec", "yt": ty, "n": 0, "acc": 1, "form": r.below(2)}));
                    }
                }
            }
            _ => {
                let (x, xt, y, yt) = operand_pair(r, false);
                v.push(bin(t, op, x, xt, y, yt, 0, r.below(4)));
            }
        }
    }
    v
}
fn clampc2(c: i128) -> i128 {
    if c == i128::MIN { -MAXC } else { c }
}

/// C04: div_rounded mul_rounded quantize
pub fn c04(r: &mut Rng, t: u32, n: usize) -> Vec<Value> {
    let mut v = vec![];
    while v.len() < n {
        maybe_set(r, t, &mut v, 4);
        match r.below(16) {
            0 | 1 | 2 => {
                let nn = r.below(19) as u32;
                if let Some((x, p, y, q)) = div_case(r, nn) {
                    v.push(bin(t, "div_rounded", dj(x, p), "dec", dj(y, q), "dec", nn as i64, r.below(4)));
                }
            }
            3 | 4 => {
                // divisor-scaled branch p > n + q; single vs double rounding: truncated first quotient on a tie
                let nn = r.below(6) as u32;
                let q = r.below(6) as u32;
                let sh = 1 + r.below(6) as u32;
                let p = nn + q + sh;
                if p > 18 { continue; }
                let yc = r.below(50) as i128 + 2;
                // x = yc * (t*10^sh + 5*10^(sh-1)) + rem, rem in 0..yc
                let tq = r.below(1000) as i128;
                let base = yc * (tq * p10(sh) + 5 * p10(sh - 1));
                let xc = base + match r.below(3) { 0 => 0, 1 => 1, _ => yc - 1 };
                let (xc, yc) = sign2(r, xc, yc);
                v.push(bin(t, "div_rounded", dj(xc, p as u8), "dec", dj(yc, q as u8), "dec", nn as i64, r.below(4)));
            }
            14 => {
                // divisor-scaled branch with a unit (or tiny) divisor coefficient and a dividend coefficient near the i128 bound
                let nn = r.below(8) as u32;
                let q = r.below(8) as u32;
                let p = (nn + q + 1 + r.below(4) as u32).min(18);
                if p <= nn + q { continue; }
                let yc = *r.pick(&[1i128, -1, 1, 2, -2, 3, 10]);
                let xc = neg1!(r, MAXC - r.below(1u64 << 40) as i128 * if r.bool() { 1 } else { 1 << 80 });
                v.push(bin(t, if r.below(4) == 0 { "quantize" } else { "div_rounded" }, dj(xc, p as u8), "dec", dj(yc, q as u8), "dec", nn as i64, r.below(4)));
            }
            13 => {
                if let Some((a, k, mm)) = knuth_shifted(r) {
                    // n + q - p = k with p = 0: choose q <= 18, n = k - q <= 18
                    let q = (k.saturating_sub(18)).max(r.below(19) as u32).min(18).min(k);
                    let nn = k - q;
                    if nn > 18 { continue; }
                    let (a, mm) = sign2(r, a, mm);
                    v.push(bin(t, "div_rounded", dj(a, 0), "dec", dj(mm, q as u8), "dec", nn as i64, r.below(4)));
                }
            }
            12 => {
                let (p, q) = (r.below(19) as u8, r.below(19) as u8);
                let (pa, pb) = (pow25(r), pow25(r));
                let (xc, yc) = sign2(r, pa, pb);
                let op = if r.bool() { "div_rounded" } else { "mul_rounded" };
                v.push(bin(t, op, dj(xc, p), "dec", dj(yc, q), "dec", r.below(19) as i64, r.below(4)));
            }
            11 => {
                let (x, y, k) = max_quotient_construct(r);
                let q = r.below(10) as u32;
                let nn = r.below(19) as u32;
                if nn + q < k { continue; }
                let p = nn + q - k;
                if p > 18 { continue; }
                let (x, y) = sign2(r, x, y);
                v.push(bin(t, "div_rounded", dj(x, p as u8), "dec", dj(y, q as u8), "dec", nn as i64, r.below(4)));
            }
            5 => {
                // rejection clause n > 18, all operand type combinations
                let nn = 19 + r.below(237) as i64;
                let (x, xt, y, yt) = operand_pair(r, true);
                v.push(bin(t, "div_rounded", x, xt, y, yt, nn, r.below(4)));
            }
            6 | 7 => {
                // mul_rounded with ties
                let nn = r.below(19) as u32;
                let p = r.below(19) as u32;
                let q = r.below(19) as u32;
                if p + q <= nn {
                    let (xc, _) = decimal(r);
                    let (yc, _) = decimal(r);
                    v.push(bin(t, "mul_rounded", dj(xc, p as u8), "dec", dj(yc, q as u8), "dec", nn as i64, r.below(4)));
                } else {
                    let sh = p + q - nn;
                    let yc = (5 * p10(sh - 1)).saturating_add([0, 0, 1, -1][r.below(4) as usize]);
                    let xc = match r.below(3) { 0 => r.below(100) as i128, 1 => (r.u128() >> (1 + r.below(100))) as i128, _ => (MAXC / (5 * p10(sh - 1))).saturating_sub(r.below(5) as i128) };
                    let (xc, yc) = sign2(r, xc, yc);
                    v.push(bin(t, "mul_rounded", dj(xc, p as u8), "dec", dj(yc, q as u8), "dec", nn as i64, r.below(4)));
                }
            }
            8 => {
                let nn = r.below(30) as i64;
                let (xc, xf) = decimal(r);
                let (yc, yf) = decimal(r);
                v.push(bin(t, "mul_rounded", dj(xc, xf), "dec", dj(yc, yf), "dec", nn, r.below(4)));
            }
            9 => {
                // quantize: ties of x/q
                let q = r.below(10) as u32;
                let p = r.below(10) as u32;
                let k = if q >= p { q - p } else { 0 };
                let (x, y) = if r.bool() { tie_construct(r, k) } else { div_construct(r, k) };
                let (x, y) = sign2(r, x, y);
                v.push(bin(t, "quantize", dj(x, p as u8), "dec", dj(y, (p + k).min(18) as u8), "dec", 0, r.below(4)));
            }
            10 => {
                let (x, xt, y, yt) = operand_pair(r, true);
                v.push(bin(t, "quantize", x, xt, y, yt, 0, r.below(4)));
            }
            _ => {
                let nn = r.below(19) as i64;
                let (x, xt, y, yt) = operand_pair(r, true);
                v.push(bin(t, "div_rounded", x, xt, y, yt, nn, r.below(4)));
            }
        }
    }
    v
}

/// C05: round checked_round + the kernel
pub fn c05(r: &mut Rng, t: u32, n: usize) -> Vec<Value> {
    let mut v = vec![];
    while v.len() < n {
        maybe_set(r, t, &mut v, 4);
        let op = if r.below(3) == 0 { "checked_round" } else { "round" };
        match r.below(10) {
            9 => {
                // every remainder class at every shift 1..38: coefficient = head * 10^s + {0, 1, half-1, half, half+1, 10^s-1}
                let sh = 1 + r.below(38) as u32;
                let f = r.below(19) as i64;
                let unit = p10(sh);
                let hmax = MAXC / unit;
                let head = if hmax <= 1 { r.below(2) as i128 } else { match r.below(3) { 0 => r.below(3) as i128, 1 => hmax - r.below(2) as i128, _ => ((r.u128() >> 1) as i128) % (hmax + 1) } };
                let half = unit / 2;
                let rem = match r.below(6) { 0 => 0, 1 => 1, 2 => half - 1, 3 => half, 4 => half + 1, _ => unit - 1 };
                let c = neg1!(r, (head * unit).saturating_add(rem).min(MAXC));
                v.push(json!({"ev": "un", "t": t, "op": op, "x": dj(c, f as u8), "n": f - sh as i64}));
            }
            8 => {
                // shift back at the i128 boundary: integral value within one rounding unit of MAX, negative n
                let k = 1 + r.below(6) as u32;
                let c = neg1!(r, MAXC - (r.below(p10(k) as u64) as i128));
                v.push(json!({"ev": "un", "t": t, "op": op, "x": dj(c, 0), "n": -(k as i64)}));
            }
            0 | 1 => {
                // tie digits: coefficient ending in 5 0..0 at the cut
                let f = 1 + r.below(18) as u32;
                let cut = 1 + r.below(f as u64) as u32; // digits dropped
                let head = r.range(-2000, 2000) as i128;
                let c = head * p10(cut) + neg1!(r, 5 * p10(cut - 1) + [0, 0, 1, -1][r.below(4) as usize]);
                v.push(json!({"ev": "un", "t": t, "op": op, "x": dj(c, f as u8), "n": f as i64 - cut as i64}));
            }
            2 => {
                // whole i8 range
                let (c, f) = decimal(r);
                v.push(json!({"ev": "un", "t": t, "op": op, "x": dj(c, f), "n": r.range(-128, 127)}));
            }
            3 => {
                // negative n near the representable limit
                let (c, f) = decimal(r);
                v.push(json!({"ev": "un", "t": t, "op": op, "x": dj(c, f), "n": r.range(-40, -15)}));
            }
            4 | 5 => {
                // kernel
                let (a, b) = match r.below(3) {
                    0 => (r.range(-400, 400) as i128, r.range(1, 40) as i128),
                    1 => tie_construct(r, 0),
                    _ => (coeff(r), { let d = coeff(r); if d == 0 { 7 } else { d } }),
                };
                let (a, b) = sign2(r, a, b);
                v.push(json!({"ev": "kern", "t": t, "x": num(a), "y": num(b), "mode": crate::exec::MODES[r.below(8) as usize].1}));
            }
            _ => {
                let (c, f) = decimal(r);
                v.push(json!({"ev": "un", "t": t, "op": op, "x": dj(c, f), "n": r.range(-5, 20)}));
            }
        }
    }
    v
}

/// C10: % %= checked_rem
pub fn c10(r: &mut Rng, t: u32, n: usize) -> Vec<Value> {
    let mut v = vec![];
    while v.len() < n {
        let op = if r.below(3) == 0 { "checked_rem" } else { "rem" };
        match r.below(8) {
            0 | 1 => {
                // dividend needs up-scaling beyond i128; divisor below / above 2^127/10
                let p = r.below(10) as u32;
                let q = p + 1 + r.below((18 - p) as u64) as u32;
                let xc = neg1!(r, (MAXC / p10(q - p)).saturating_add(r.below(1000) as i128 + 1).min(MAXC));
                let yc = match r.below(3) { 0 => neg1!(r, MAXC / 10 + r.range(-3, 3) as i128), 1 => neg1!(r, MAXC - r.below(100) as i128), _ => { let c = coeff(r); if c == 0 { 3 } else { c } } };
                v.push(bin(t, op, dj(xc, p as u8), "dec", dj(yc, q as u8), "dec", 0, r.below(4)));
            }
            2 => {
                // divisor side overflow: p > q, y*10^(p-q) does not fit
                let q = r.below(10) as u32;
                let p = q + 1 + r.below((18 - q) as u64) as u32;
                let yc = neg1!(r, (MAXC / p10(p - q)).saturating_add(r.range(-1, 2) as i128).min(MAXC));
                let (xc, _) = decimal(r);
                v.push(bin(t, op, dj(xc, p as u8), "dec", dj(yc, q as u8), "dec", 0, r.below(4)));
            }
            3 => {
                let (c, f) = decimal(r);
                v.push(json!({"ev": "accset", "t": t, "x": dj(c, f)}));
                let (yc, yf) = decimal(r);
                v.push(json!({"ev": "bin", "t": t, "op": "rem", "x": dj(0, 0), "y": dj(yc, yf), "xt": "dec", "yt": "dec", "n": 0, "acc": 1, "form": r.below(2)}));
            }
            _ => {
                let (x, xt, y, yt) = operand_pair(r, false);
                v.push(bin(t, op, x, xt, y, yt, 0, r.below(4)));
            }
        }
    }
    v
}

/// C08: comparisons
pub fn c08(r: &mut Rng, t: u32, n: usize) -> Vec<Value> {
    let mut v = vec![];
    let ops = ["eq", "ne", "lt", "le", "gt", "ge", "partial_cmp", "cmp", "min", "max"];
    let iops = ["eq", "ne", "lt", "le", "gt", "ge", "partial_cmp"];
    while v.len() < n {
        match r.below(10) {
            0 | 1 => {
                // equal values in different representations
                let (c, f) = decimal(r);
                let f2 = r.below(19) as u32;
                let (c2, f2) = if f2 as u8 >= f { match c.checked_mul(p10(f2 - f as u32)) { Some(c2) => (c2, f2 as u8), None => (c, f) } } else { (c, f) };
                let c2 = if r.below(4) == 0 { c2.saturating_add(r.range(-1, 1) as i128) } else { c2 };
                let op = *r.pick(&ops);
                if r.bool() { v.push(json!({"ev": "cmp", "t": t, "op": op, "x": dj(c, f), "y": dj(c2, f2), "xt": "dec", "yt": "dec"})); } else { v.push(json!({"ev": "cmp", "t": t, "op": op, "x": dj(c2, f2), "y": dj(c, f), "xt": "dec", "yt": "dec"})); }
            }
            2 | 3 => {
                // alignment overflows: large coefficient at a small scale vs anything at a larger scale
                let f1 = r.below(10) as u32;
                let f2 = f1 + 1 + r.below((18 - f1) as u64) as u32;
                let c1 = neg1!(r, (MAXC / p10(f2 - f1)).saturating_add(r.below(3) as i128).min(MAXC));
                let c2 = match r.below(4) { 0 => 0, 1 => neg1!(r, MAXC), _ => coeff(r) };
                let op = *r.pick(&ops);
                if r.bool() { v.push(json!({"ev": "cmp", "t": t, "op": op, "x": dj(c1, f1 as u8), "y": dj(c2, f2 as u8), "xt": "dec", "yt": "dec"})); } else { v.push(json!({"ev": "cmp", "t": t, "op": op, "x": dj(c2, f2 as u8), "y": dj(c1, f1 as u8), "xt": "dec", "yt": "dec"})); }
            }
            4 | 5 => {
                // integer operands, in particular i128 values whose scaling overflows
                let op = *r.pick(&iops);
                let (c, f) = decimal(r);
                let ty = int_type(r);
                let i = if ty == "i128" && r.bool() && f > 0 { neg1!(r, (MAXC / p10(f as u32)).saturating_add(r.range(-1, 1) as i128)) } else if r.below(3) == 0 && f > 0 && c % p10(f as u32) == 0 { let q = c / p10(f as u32); int_fold(q, ty) } else { int_value(r, ty) };
                if r.bool() { v.push(json!({"ev": "cmp", "t": t, "op": op, "x": dj(c, f), "y": dj(i, 0), "xt": "dec", "yt": ty})); } else { v.push(json!({"ev": "cmp", "t": t, "op": op, "x": dj(i, 0), "y": dj(c, f), "xt": ty, "yt": "dec"})); }
            }
            7 => {
                // a Decimal that is exactly an integer at (or just below) the bound where scaling the integer overflows
                let f = 1 + r.below(18) as u32;
                let i = neg1!(r, MAXC / p10(f) - r.below(2) as i128);
                let c = i * p10(f);
                let op = *r.pick(&iops);
                let ty = "i128";
                if r.bool() { v.push(json!({"ev": "cmp", "t": t, "op": op, "x": dj(c, f as u8), "y": dj(i, 0), "xt": "dec", "yt": ty})); } else { v.push(json!({"ev": "cmp", "t": t, "op": op, "x": dj(i, 0), "y": dj(c, f as u8), "xt": ty, "yt": "dec"})); }
            }
            6 => {
                let (c, f) = decimal(r);
                v.push(json!({"ev": "bs", "t": t, "x": dj(c, f)}));
            }
            _ => {
                let (c, f) = decimal(r);
                let (c2, f2) = decimal(r);
                let ((c, f), (c2, f2)) = if r.below(3) == 0 { let (p, q) = wrap_alias(r); if r.bool() { (p, q) } else { (q, p) } } else { ((c, f), (c2, f2)) };
                v.push(json!({"ev": "cmp", "t": t, "op": *r.pick(&ops), "x": dj(c, f), "y": dj(c2, f2), "xt": "dec", "yt": "dec"}));
            }
        }
    }
    v
}
fn int_fold(v: i128, ty: &str) -> i128 {
    match ty {
        "u8" => v as u8 as i128, "i8" => v as i8 as i128, "u16" => v as u16 as i128, "i16" => v as i16 as i128,
        "u32" => v as u32 as i128, "i32" => v as i32 as i128, "u64" => v as u64 as i128, "i64" => v as i64 as i128,
        _ => v,
    }
}

/// C08 with feature rkyv: archived comparisons and the archive round trip
pub fn c08a(r: &mut Rng, t: u32, n: usize) -> Vec<Value> {
    let mut v = vec![];
    let ops = ["eq", "ne", "lt", "le", "gt", "ge", "partial_cmp", "cmp"];
    while v.len() < n {
        let (c, f) = decimal(r);
        let (c2, f2) = if r.below(3) == 0 { (c, f) } else { decimal(r) };
        // one pair in eight: coefficients that alias each other under wrapping scale alignment (either order)
        let ((c, f), (c2, f2)) = if r.below(8) == 0 { let (p, q) = wrap_alias(r); if r.bool() { (p, q) } else { (q, p) } } else { ((c, f), (c2, f2)) };
        if r.below(4) == 0 {
            v.push(json!({"ev": "un", "t": t, "op": "copy", "x": dj(c, f), "n": 0}));
        } else {
            let kind = *r.pick(&["aa", "ad", "da"]);
            let mut op = *r.pick(&ops);
            if op == "cmp" && kind != "aa" { op = "partial_cmp"; }
            v.push(json!({"ev": "acmp", "t": t, "op": op, "kind": kind, "x": dj(c, f), "y": dj(c2, f2), "xt": "dec", "yt": "dec"}));
        }
    }
    v
}

/// C09: as_integer_ratio, hash, HashSet history
pub fn c09(r: &mut Rng, t: u32, n: usize) -> Vec<Value> {
    let mut v = vec![];
    let mut pool: Vec<(i128, u8)> = vec![];
    while v.len() < n {
        let (c, f) = if !pool.is_empty() && r.below(3) == 0 {
            // another representation of a value seen before
            let (c, f) = pool[r.below(pool.len() as u64) as usize];
            let f2 = f as u32 + r.below(19 - f as u64) as u32;
            match c.checked_mul(p10(f2 - f as u32)) { Some(c2) => (c2, f2 as u8), None => (c, f) }
        } else {
            let (c, f) = match r.below(4) {
                3 => {
                    // q / 2^j stored without trailing zeros: odd coefficient q * 5^j at scale j (and nearby scales)
                    let j = 10 + r.below(9) as u32;
                    let lim = if r.bool() { 8 } else { 1 << 20 };
                    let q = 1 + 2 * r.below(lim) as i128;
                    let c = 5_i128.pow(j).saturating_mul(q).min(MAXC);
                    (neg1!(r, c), (j as i64 + r.range(-1, 1)).clamp(0, 18) as u8)
                }
                0 => {
                    let mut c: i128 = 1 + 2 * r.below(500) as i128;
                    for _ in 0..r.below(100) { c = c.saturating_mul(2); }
                    for _ in 0..r.below(19) { c = c.saturating_mul(5); }
                    (neg1!(r, c.min(MAXC)), r.below(19) as u8)
                }
                _ => decimal(r),
            };
            if pool.len() < 64 { pool.push((c, f)); }
            (c, f)
        };
        match r.below(6) {
            0 | 1 => v.push(json!({"ev": "ratio", "t": t, "x": dj(c, f)})),
            2 | 3 => v.push(json!({"ev": "hash", "t": t, "x": dj(c, f)})),
            _ => v.push(json!({"ev": "hs", "t": t, "op": *r.pick(&["insert", "insert", "contains", "contains", "remove"]), "x": dj(c, f)})),
        }
    }
    v
}

/// C06: parsing
pub fn c06(r: &mut Rng, t: u32, n: usize) -> Vec<Value> {
    let mut v = vec![];
    let alphabet: [&str; 14] = ["0", "1", "5", "9", ".", "e", "E", "+", "-", " ", "x", "_", "é", "00000000"];
    let forms = ["from_str", "from_str", "try_from_str", "try_from_string", "from_str_radix"];
    let bounds: [&str; 8] = [
        "100000000000000000000000000000000000000",  // 10^38
        "170141183460469231731687303715884105727",  // 2^127-1
        "170141183460469231731687303715884105728",  // 2^127
        "340282366920938463463374607431768211456",  // 2^128
        "440282366920938463463374607431768211456",  // 2^128 + 10^38
        "510423550381407695195061911147652317183",  // 2^128 + 2^127 - 1
        "680564733841876926926749214863536422912",  // 2^129
        "99999999999999999999999999999999999999",   // 10^38-1
    ];
    while v.len() < n {
        let s: String = match r.below(12) {
            0 | 1 => {
                let len = r.below(9);
                (0..len).map(|_| *r.pick(&alphabet)).collect()
            }
            2 | 3 => {
                // grammar-shaped literal
                let mut s = String::new();
                match r.below(4) { 0 => s.push('+'), 1 => s.push('-'), _ => {} }
                let il = r.below(4) * r.below(12);
                for _ in 0..il { s.push((b'0' + r.below(10) as u8) as char); }
                if r.below(3) > 0 { s.push('.'); for _ in 0..(r.below(5) * r.below(6)) { s.push((b'0' + r.below(10) as u8) as char); } }
                if r.below(2) == 0 { s.push(if r.bool() { 'e' } else { 'E' }); match r.below(3) { 0 => s.push('+'), 1 => s.push('-'), _ => {} } for _ in 0..r.below(4) { { let b = if r.bool() { 10 } else { 3 }; s.push((b'0' + r.below(b) as u8) as char); } } }
                s
            }
            4 | 5 => {
                // boundary digit strings with point / exponent / offsets
                let mut d: String = (*r.pick(&bounds)).to_string();
                if r.below(3) == 0 {
                    // +-1 in the last place
                    let mut b = d.into_bytes();
                    let l = b.len() - 1;
                    if b[l] > b'0' && r.bool() { b[l] -= 1 } else if b[l] < b'9' { b[l] += 1 }
                    d = String::from_utf8(b).unwrap();
                }
                if r.below(3) == 0 { for _ in 0..r.below(42) { d.push((b'0' + r.below(10) as u8) as char); } }
                let mut s = String::new();
                if r.below(3) == 0 { s.push('-'); }
                for _ in 0..r.below(3) { s.push('0'); }
                if r.bool() { let k = r.below(d.len() as u64 + 1) as usize; s.push_str(&d[..k]); s.push('.'); s.push_str(&d[k..]); if r.bool() { s.push_str(&format!("e{}", d.len() - k)); } } else { s.push_str(&d); }
                s
            }
            6 => {
                // long digit strings 1..80
                let l = 1 + r.below(80);
                let mut s: String = (0..l).map(|_| (b'0' + r.below(10) as u8) as char).collect();
                if r.bool() { let k = r.below(s.len() as u64 + 1) as usize; s.insert(k, '.'); }
                if r.below(3) == 0 { s.push_str(&format!("e{}", r.range(-60, 60))); }
                s
            }
            7 => {
                // exponent spellings
                let m = *r.pick(&["1", "0", "1.5", ".5", "0.", "12.", "-0.0", "00", "7e", "1e+", "1e-", "e5", ".", "+", "-", "+.", "1.e1"]);
                let mut s = m.to_string();
                if !s.contains('e') { s.push(if r.bool() { 'e' } else { 'E' }); match r.below(3) { 0 => s.push('+'), 1 => s.push('-'), _ => {} } for _ in 0..r.below(5) { { let b = if r.bool() { 10 } else { 2 }; s.push((b'0' + r.below(b) as u8) as char); } } }
                s
            }
            10 | 11 => {
                // digit runs of chunk-relevant lengths with ONE foreign byte at any position: bytes adjacent to '0'..'9' in
                // ASCII ('/', ':'), bytes that look like digits in the low nibble ('@' 0x40, 'p' 0x70, 'P'), grammar characters
                let l = *r.pick(&[7usize, 8, 9, 15, 16, 17, 24, 30]) + r.below(2) as usize;
                let mut b: Vec<u8> = (0..l).map(|_| b'0' + r.below(10) as u8).collect();
                if b[0] == b'0' { b[0] = b'1'; }
                let k = r.below(l as u64) as usize;
                let foreign: &[u8] = b"/:@pP`. eE+-_\x7f!";
                b[k] = *r.pick(foreign);
                if r.below(4) == 0 { b.insert(r.below(l as u64) as usize, b'.'); }
                let mut s = String::from_utf8(b).unwrap();
                if r.below(3) == 0 {
                    // a multi-byte character instead (all UTF-8 lead/continuation byte ranges, digits of other scripts)
                    let ch = *r.pick(&['\u{bd}', '\u{be}', '\u{bf}', '\u{fc}', '\u{ff}', '\u{b9}', '\u{e9}', '\u{b2}', '\u{663}', '\u{ff13}', '\u{feff}', '\u{fffd}', '\u{7ff}', '\u{800}', '\u{10ffff}', '\u{1d7d8}']);
                    s.replace_range(k..k + 1, &ch.to_string());
                }
                s
            }
            8 if r.bool() => {
                // long fraction compensated by a long exponent: value = digits * 10^(e - z - len)
                let z = if r.bool() { r.below(130) } else { 130 + r.below(1100) };
                let mut s = String::from(if r.bool() { "0." } else { "-." });
                for _ in 0..z { s.push('0'); }
                let nd = 1 + r.below(4);
                for _ in 0..nd { s.push((b'1' + r.below(9) as u8) as char); }
                let e = z as i64 + nd as i64 + r.range(-19, 38);
                s.push_str(&format!("{}{}", if r.bool() { "e" } else { "E+" }, e.max(0)));
                s
            }
            8 => {
                // fraction with leading zeros against the digit limits
                let z = r.below(45);
                let mut s = String::from(if r.bool() { "0." } else { "." });
                for _ in 0..z { s.push('0'); }
                for _ in 0..r.below(4) { s.push((b'1' + r.below(9) as u8) as char); }
                if r.bool() { s.push_str(&format!("e{}", r.range(0, 50))); }
                s
            }
            _ => {
                // canonical text of a random value (+ mutation)
                let (c, f) = decimal(r);
                let mut s = fpdec::Decimal::new_raw(c, f).to_string();
                if r.below(3) == 0 && !s.is_empty() { let k = r.below(s.len() as u64) as usize; if s.is_char_boundary(k) { s.insert_str(k, *r.pick(&alphabet)); } }
                s
            }
        };
        let form = *r.pick(&forms);
        let radix = if form == "from_str_radix" { *r.pick(&[10, 10, 10, 2, 16, 36, 0]) } else { 10 };
        v.push(json!({"ev": "parse", "t": t, "form": form, "radix": radix, "bs": bytes(&s)}));
    }
    v
}

/// C07: canonical text and round trip
pub fn c07(r: &mut Rng, t: u32, n: usize) -> Vec<Value> {
    let mut v = vec![];
    while v.len() < n {
        let (c, f) = match r.below(4) {
            0 => { let k = r.below(19) as u32; (neg1!(r, r.below(p10(k) as u64 + 1) as i128), r.below(19) as u8) } // |value| < 1 or few digits: leading zeros in the fraction
            _ => decimal(r),
        };
        v.push(json!({"ev": "str", "t": t, "x": dj(c, f)}));
    }
    v
}

/// C11: Display with flags
pub fn c11(r: &mut Rng, t: u32, n: usize) -> Vec<Value> {
    let mut v = vec![];
    while v.len() < n {
        maybe_set(r, t, &mut v, 4);
        let (c, f) = match r.below(6) {
            0 => {
                // carry into the integer part: 9.99..
                let f = 1 + r.below(18) as u32;
                (neg1!(r, p10(f + r.below(3) as u32) - 1 - r.below(2) as i128), f as u8)
            }
            1 => {
                // tie at the cut
                let f = 1 + r.below(18) as u32;
                let cut = 1 + r.below(f as u64) as u32;
                let head = r.range(-200, 200) as i128;
                (head * p10(cut) + neg1!(r, 5 * p10(cut - 1)), f as u8)
            }
            2 => (neg1!(r, r.below(6) as i128), 1 + r.below(18) as u8), // rounds to zero
            _ => decimal(r),
        };
        let has_p = r.below(4) > 0;
        let has_w = r.below(4) > 0;
        let p = if has_p { match r.below(4) { 0 => f as i64 - 1 - r.below(3) as i64, 1 => r.range(0, 40), _ => r.range(0, 19) } } else { 0 }.max(0);
        let w = if has_w { r.range(0, 60) } else { 0 };
        v.push(json!({"ev": "fmt", "t": t, "x": dj(c, f), "fi": r.below(crate::fmt::N_FLAGS as u64), "hasP": has_p as u8, "p": p, "hasW": has_w as u8, "w": w}));
    }
    v
}

/// C12: Decimal -> f64 / f32, midpoints of adjacent floats and their neighbours
pub fn c12(r: &mut Rng, t: u32, n: usize) -> Vec<Value> {
    let mut v = vec![];
    while v.len() < n {
        let (c, f): (i128, u8) = match r.below(9) {
            0 | 1 | 2 => {
                // exact midpoint (2m+1) * 2^(e-1) with a finite decimal expansion of <= 18 digits, +-1 unit
                let fb: u32 = if r.bool() { 52 } else { 23 };
                let m: u128 = (1u128 << fb) | (r.u128() & ((1u128 << fb) - 1));
                let e: i32 = r.range(-18, 18) as i32 - fb as i32; // value = (2m+1) * 2^(e-1)
                let odd = 2 * m + 1;
                let e1 = e - 1;
                let (c, f) = if e1 >= 0 {
                    match odd.checked_shl(e1 as u32) { Some(x) if (x >> e1 as u32) == odd && x <= MAXC as u128 => (x as i128, 0u8), _ => continue }
                } else {
                    let k = (-e1) as u32; // odd / 2^k = odd * 5^k / 10^k
                    if k > 18 { continue; }
                    match 5u128.checked_pow(k).and_then(|p| p.checked_mul(odd)) { Some(x) if x <= MAXC as u128 => (x as i128, k as u8), _ => continue }
                };
                // optionally more digits, then +-1 unit in the last place
                let extra = if r.bool() { r.below((19 - f as u64).min(6)) as u32 } else { 18 - f as u32 - r.below((19 - f as u64).min(3)) as u32 };   // up to 18 digits: offsets far below an f64 ulp
                let (c, f) = match c.checked_mul(p10(extra)) { Some(c2) => (c2, f + extra as u8), None => (c, f) };
                (neg1!(r, c.saturating_add(r.range(-1, 1) as i128)), f)
            }
            6 => {
                // midpoints of adjacent floats at every magnitude the coefficient allows: (2m+1) * 2^(e-1) * 10^f, then a
                // small offset above / below it (units, 2^32, multiples of 2^64: sticky-bit and truncation paths)
                let fb: u32 = if r.bool() { 52 } else { 23 };
                let f = 1 + r.below(18) as u32;
                let m: u128 = (1u128 << fb) | (r.u128() & ((1u128 << fb) - 1));
                let odd = 2 * m + 1;
                let room = 126u32.saturating_sub(128 - (odd * (p10(f) as u128)).leading_zeros());
                if (odd.checked_mul(p10(f) as u128)).is_none() || room == 0 { continue; }
                let e1 = room - r.below((room as u64).min(8)) as u32;
                let base = (odd * p10(f) as u128) << e1;
                if base > MAXC as u128 { continue; }
                let off: i128 = match r.below(8) { 0 => 0, 1 => 1, 2 => -1, 3 => 1 << 32, 4 => 1 << 64, 5 => 3 << 64, 6 => -(1 << 64), _ => (r.below(9) as i128 + 1) << 64 };
                let c = (base as i128).saturating_add(off);
                (neg1!(r, if c == i128::MIN || c <= 0 { base as i128 } else { c }), f as u8)
            }
            3 => (neg1!(r, (1i128 << r.below(127)).saturating_add(r.range(-1, 1) as i128)), r.below(19) as u8), // binade edges
            4 => (neg1!(r, r.below(1000) as i128), 18),
            5 => (coeff(r), 0), // integer-valued: primitive cast path
            7 | 8 => decimal(r),
            _ => decimal(r),
        };
        v.push(json!({"ev": "tofloat", "t": t, "x": dj(c, f)}));
    }
    v
}

/// C13: f64 / f32 -> Decimal
pub fn c13(r: &mut Rng, t: u32, n: usize) -> Vec<Value> {
    let mut v = vec![];
    while v.len() < n {
        let w: u32 = if r.bool() { 64 } else { 32 };
        let (fb, ebits, bias): (u32, u32, i64) = if w == 64 { (52, 11, 1023) } else { (23, 8, 127) };
        let emax = (1u64 << ebits) - 1;
        let fmask: u64 = (1u64 << fb) - 1;
        let (bexp, frac): (u64, u64) = match r.below(14) {
            0 => (emax, if r.bool() { 0 } else { r.next() & fmask }),               // inf / NaN
            1 => (0, if r.bool() { 0 } else { r.next() & fmask }),                  // zero / subnormal
            2 | 3 => {
                // odd * 2^-k for k around 19..22: a 5 in the 19th.. place (ties of the decimal rounding)
                let k = r.range(17, 24);
                let m = (r.below(1 << 20) | 1) as u64;       // odd
                // value = m * 2^-k ; normalise
                let l = 63 - m.leading_zeros() as i64;      // msb index
                let e = l - k;
                let frac = if l as u32 <= fb { (m << (fb - l as u32)) & fmask } else { (m >> (l as u32 - fb)) & fmask };
                (((e + bias) as u64).min(emax - 1), frac)
            }
            10 | 11 if w == 64 || r.bool() => {
                // the float nearest to a decimal tie (k + 1/2) * 10^-j (j = 18: the rounding position; also 17, 19) and its neighbours
                let k = match r.below(3) { 0 => r.below(10), 1 => r.below(100000), _ => r.next() >> 20 };
                let j = *r.pick(&[18i32, 18, 18, 17, 19]);
                let val = (k as f64 + 0.5) * 10f64.powi(-j);
                let txt = format!("{}5e-{}", k, j + 1);
                let (bits, fb2) = if w == 64 { (txt.parse::<f64>().unwrap_or(val).to_bits(), 52) } else { ((txt.parse::<f32>().unwrap_or(val as f32).to_bits()) as u64, 23) };
                let bits = (bits as i64 + r.range(-1, 1)) as u64;
                ((bits >> fb2) & emax, bits & fmask)
            }
            4 => ((bias + 126 + r.below(4) as i64) as u64, r.next() & fmask),       // 2^127 boundary
            5 => ((bias + 127) as u64 - r.below(2), if r.bool() { 0 } else { fmask }),
            6 => ((bias - r.range(55, 75)) as u64, r.next() & fmask),               // around the 10^-18 limit
            7 => (r.below(emax + 1), r.next() & fmask),                              // any exponent field
            8 => ((bias + r.range(-2, 60)) as u64, (r.next() & fmask) & !((1u64 << r.below(fb as u64)) - 1)), // short fractions: exact decimals
            9 => ((bias - r.range(100, 140)) as u64 & emax, r.next() & fmask),      // the -126/-127 cut-off of the implementation
            _ => ((bias + r.range(-70, 130)) as u64, r.next() & fmask),
        };
        let bexp = bexp.min(emax);
        v.push(json!({"ev": "fromfloat", "t": t, "w": w, "sign": r.below(2), "bexp": bexp, "frac": limbs_u128(frac as u128)}));
    }
    v
}

/// C14: integer conversions
pub fn c14(r: &mut Rng, t: u32, n: usize) -> Vec<Value> {
    let mut v = vec![];
    let tys = ["u8", "i8", "u16", "i16", "u32", "i32", "u64", "i64", "i128", "u128"];
    while v.len() < n {
        let ty = *r.pick(&tys);
        let (lo, hi): (i128, u128) = match ty {
            "u8" => (0, u8::MAX as u128), "i8" => (i8::MIN as i128, i8::MAX as u128), "u16" => (0, u16::MAX as u128), "i16" => (i16::MIN as i128, i16::MAX as u128),
            "u32" => (0, u32::MAX as u128), "i32" => (i32::MIN as i128, i32::MAX as u128), "u64" => (0, u64::MAX as u128), "i64" => (i64::MIN as i128, i64::MAX as u128),
            "i128" => (-MAXC, MAXC as u128), _ => (0, u128::MAX),
        };
        match r.below(5) {
            0 => {
                // from int
                if ty == "u128" {
                    let x: u128 = match r.below(4) { 0 => MAXC as u128 + r.below(3) as u128 - 1, 1 => u128::MAX - r.below(2) as u128, 2 => r.u128(), _ => r.below(1000) as u128 };
                    v.push(json!({"ev": "fromint", "t": t, "ty": ty, "v": unum(x)}));
                } else {
                    let x = if ty == "i128" && r.below(4) == 0 { i128::MIN + r.below(2) as i128 } else { int_value(r, ty) };
                    v.push(json!({"ev": "fromint", "t": t, "ty": ty, "v": num(x)}));
                }
            }
            1 | 2 => {
                // boundary value of T +- 1, as an integral Decimal with trailing zeros, +- a fraction
                let b: i128 = match r.below(9) { 0 => lo.saturating_sub(1), 1 => lo, 2 => lo + 1, 3 => -1, 4 => 0, 5 => 1, 6 => (hi.min(MAXC as u128) as i128).saturating_sub(1), 7 => hi.min(MAXC as u128) as i128, _ => (hi.min(MAXC as u128 - 1) as i128) + 1 };
                let f = r.below(19) as u32;
                match b.checked_mul(p10(f)) {
                    Some(c) => {
                        let c = match r.below(4) { 0 if f > 0 => c.saturating_add(neg1!(r, 1)), 1 if f > 1 => c.saturating_add(neg1!(r, p10(1 + r.below(f as u64 - 1) as u32))), _ => c };
                        let c = if c == i128::MIN { -MAXC } else { c };
                        v.push(json!({"ev": "toint", "t": t, "ty": ty, "x": dj(c, f as u8)}));
                    }
                    None => v.push(json!({"ev": "toint", "t": t, "ty": ty, "x": dj(if b == i128::MIN { -MAXC } else { b }, 0)})),
                }
            }
            3 => {
                // d * 10^k written with f <= k fractional zeros
                let k = r.below(38) as u32;
                let f = r.below((k.min(18) + 1) as u64) as u32;
                let d = 1 + r.below(999) as i128;
                if let Some(c) = d.checked_mul(p10(k)) {
                    v.push(json!({"ev": "toint", "t": t, "ty": ty, "x": dj(neg1!(r, c), f as u8)}));
                }
            }
            _ => {
                let (c, f) = decimal(r);
                v.push(json!({"ev": "toint", "t": t, "ty": ty, "x": dj(c, f)}));
            }
        }
    }
    v
}

/// C15: unary operations and predicates
pub fn c15(r: &mut Rng, t: u32, n: usize) -> Vec<Value> {
    let mut v = vec![];
    let uops = ["floor", "ceil", "trunc", "fract", "abs", "nt_abs", "neg", "neg_ref", "signum"];
    let oops = ["magnitude", "magnitude", "eq_zero", "eq_one", "is_negative", "is_positive", "is_zero", "is_one", "nt_is_negative", "nt_is_positive"];
    while v.len() < n {
        let (c, f) = match r.below(5) {
            0 => (neg1!(r, p10(r.below(39) as u32).saturating_add(r.range(-1, 1) as i128)), r.below(19) as u8), // powers of ten +-1
            1 => {
                // exact negative / positive integers with a non-zero scale, and just beside them
                let f = 1 + r.below(18) as u32;
                (neg1!(r, (r.below(1000) as i128) * p10(f) + r.range(-1, 1) as i128), f as u8)
            }
            _ => decimal(r),
        };
        match r.below(10) {
            0..=4 => v.push(json!({"ev": "un", "t": t, "op": *r.pick(&uops), "x": dj(c, f), "n": 0})),
            5..=8 => v.push(json!({"ev": "obs", "t": t, "op": *r.pick(&oops), "x": dj(c, f)})),
            _ => {
                let (c2, f2) = decimal(r);
                v.push(bin(t, "abs_sub", dj(c, f), "dec", dj(c2, f2), "dec", 0, 0));
            }
        }
    }
    v
}

/// C16: the wide primitives, operands steered into the branches of the multi-word division
pub fn c16(r: &mut Rng, t: u32, n: usize) -> Vec<Value> {
    let mut v = vec![];
    while v.len() < n {
        let mode = crate::exec::MODES[r.below(8) as usize].1;
        let m: i128 = match r.below(8) {
            0 => r.below(1000) as i128 + 1,                                 // < 2^64
            1 => (r.next() as i128).max(1),
            2 => (1i128 << 64) + r.below(1000) as i128,                     // just above 2^64
            3 => ((r.next() >> 1) as i128) << 64 | 0xffff_ffff_ffff_ffff,   // maximal low word
            4 => (1i128 << 126) | ((r.u128() >> 3) as i128),                // normalised
            5 => (1i128 << (64 + r.below(63))) | (r.u128() >> 65) as i128,   // minimal top word of its size
            6 => MAXC - r.below(10) as i128,
            _ => ((r.u128() >> (1 + r.below(126))) as i128).max(1),
        };
        if r.below(8) == 0 {
            // the dispatch boundary of the wide division: high word of the dividend exactly equal to the divisor
            if r.bool() {
                if let Some((a, k, mm)) = high_word_equals_divisor(r) {
                    let a = neg1!(r, a);
                    let op = if r.bool() { "i128_shifted_div_mod_floor" } else { "i128_shifted_div_rounded" };
                    v.push(json!({"ev": "wide", "t": t, "op": op, "a": num(a), "b": num(0), "k": k, "m": num(mm), "mode": mode}));
                }
            } else {
                let (a, b, mm) = high_word_equals_divisor_mul(r);
                let (a, b) = sign2(r, a, b);
                v.push(json!({"ev": "wide", "t": t, "op": "i256_div_mod_floor", "a": num(a), "b": num(b), "k": 0, "m": num(mm), "mode": mode}));
            }
            continue;
        }
        if r.below(6) == 0 {
            // half-word patterns: every combination of {0, 1, 2^63, 2^64-1, random} in the four 64-bit halves of a and b
            // (carries between the partial products), divisors around 2^32 / 2^64
            let hw = |r: &mut Rng| -> u128 { match r.below(5) { 0 => 0, 1 => 1, 2 => 1 << 63, 3 => (1 << 64) - 1, _ => r.next() as u128 } };
            let a = (((hw(r) >> 1) << 64) | hw(r)) as i128;
            let b = (((hw(r) >> 1) << 64) | hw(r)) as i128;
            let mm = match r.below(5) { 0 => (1i128 << 32) + r.range(-1, 1) as i128, 1 => (1i128 << 64) + r.range(-1, 1) as i128, 2 => (1i128 << 63) + r.range(-1, 1) as i128, 3 => r.below(10) as i128 + 1, _ => (r.next() >> r.below(63)) as i128 + 1 };
            let (a, b) = sign2(r, a, b);
            if r.bool() {
                v.push(json!({"ev": "wide", "t": t, "op": "i256_div_mod_floor", "a": num(a), "b": num(b), "k": 0, "m": num(mm), "mode": mode}));
            } else {
                v.push(json!({"ev": "wide", "t": t, "op": "i128_mul_div_ten_pow_rounded", "a": num(a), "b": num(b), "k": r.below(39), "m": num(1), "mode": mode}));
            }
            continue;
        }
        if r.below(4) == 0 {
            // Knuth-D adversarial operands: quotient digit estimates too large, partial remainder on the 2^64 boundary
            if r.bool() {
                if let Some((a, b, mm)) = knuth_i256(r) {
                    let (a, b) = sign2(r, a, b);
                    v.push(json!({"ev": "wide", "t": t, "op": "i256_div_mod_floor", "a": num(a), "b": num(b), "k": 0, "m": num(mm), "mode": mode}));
                }
            } else if let Some((a, k, mm)) = knuth_shifted(r) {
                let a = neg1!(r, a);
                let op = if r.bool() { "i128_shifted_div_mod_floor" } else { "i128_shifted_div_rounded" };
                v.push(json!({"ev": "wide", "t": t, "op": op, "a": num(a), "b": num(0), "k": k, "m": num(mm), "mode": mode}));
            }
            continue;
        }
        if r.below(5) == 0 {
            // structured 2^i 5^j m operands and divisors: sparse quotient digits, exact wide divisions
            let (pa, pb) = (pow25(r), pow25(r));
            let (a, b) = sign2(r, pa, pb);
            let k = r.below(39) as u32;
            let mm = if r.bool() { pow25(r) } else { p10(k) };
            match r.below(4) {
                0 => v.push(json!({"ev": "wide", "t": t, "op": "i256_div_mod_floor", "a": num(a), "b": num(b), "k": 0, "m": num(mm), "mode": mode})),
                1 => v.push(json!({"ev": "wide", "t": t, "op": "i128_mul_div_ten_pow_rounded", "a": num(a), "b": num(b), "k": k, "m": num(1), "mode": mode})),
                2 => v.push(json!({"ev": "wide", "t": t, "op": "i128_shifted_div_mod_floor", "a": num(a), "b": num(0), "k": k, "m": num(b.abs().max(1)), "mode": mode})),
                _ => v.push(json!({"ev": "wide", "t": t, "op": "i128_shifted_div_rounded", "a": num(a), "b": num(0), "k": k, "m": num(b.abs().max(1)), "mode": mode})),
            }
            continue;
        }
        match r.below(4) {
            0 | 1 => {
                // a*b / m
                let (a, b) = match r.below(5) {
                    0 => {
                        // exact division: a multiple of m
                        let a = coeff(r);
                        let g = r.below(1000) as i128 + 1;
                        (a, m.saturating_mul(g).min(MAXC))
                    }
                    1 => (coeff(r), neg1!(r, ((m as u128 * 2).min(MAXC as u128) as i128).saturating_add(r.range(-1, 1) as i128).min(MAXC))), // high word near the divisor
                    2 => (neg1!(r, MAXC - r.below(3) as i128), neg1!(r, MAXC - r.below(3) as i128)),
                    _ => (coeff(r), coeff(r)),
                };
                let op = if r.bool() { "i256_div_mod_floor" } else { "i128_mul_div_ten_pow_rounded" };
                if op == "i128_mul_div_ten_pow_rounded" {
                    v.push(json!({"ev": "wide", "t": t, "op": op, "a": num(a), "b": num(b), "k": r.below(39), "m": num(1), "mode": mode}));
                } else {
                    v.push(json!({"ev": "wide", "t": t, "op": op, "a": num(a), "b": num(b), "k": 0, "m": num(m), "mode": mode}));
                }
            }
            _ => {
                // a*10^k / m
                let k = r.below(39) as u32;
                if r.below(6) == 0 {
                    let (x, y, k2) = max_quotient_construct(r);
                    let a = neg1!(r, x);
                    v.push(json!({"ev": "wide", "t": t, "op": "i128_shifted_div_rounded", "a": num(a), "b": num(0), "k": k2, "m": num(y), "mode": mode}));
                    continue;
                }
                let (a, mm) = match r.below(4) {
                    0 => { let (x, y) = div_construct(r, k); (x, y) }
                    1 => { let (x, y) = tie_construct(r, k); (x, y) }
                    _ => (coeff(r), m),
                };
                let a = neg1!(r, a);
                let op = if r.bool() { "i128_shifted_div_mod_floor" } else { "i128_shifted_div_rounded" };
                v.push(json!({"ev": "wide", "t": t, "op": op, "a": num(a), "b": num(0), "k": k, "m": num(mm), "mode": mode}));
            }
        }
    }
    v
}

/// C17: operand forms
pub fn c17(r: &mut Rng, t: u32, n: usize) -> Vec<Value> {
    let mut v = vec![];
    let ops = ["add", "sub", "mul", "div", "rem", "checked_add", "checked_sub", "checked_mul", "checked_div", "checked_rem", "div_rounded", "quantize", "eq", "lt", "mul_rounded"];
    while v.len() < n {
        maybe_set(r, t, &mut v, 8);
        let op = *r.pick(&ops);
        let (xc, xf) = decimal(r);
        let ty = int_type(r);
        let mut i = int_value(r, ty);
        if r.below(4) == 0 { i = int_fold([0, 1, -1, 2, 10][r.below(5) as usize], ty); }
        let nn = r.below(19) as i64;
        let ev = match r.below(if op == "mul_rounded" { 1 } else if op == "div_rounded" || op == "quantize" { 8 } else { 7 }) {
            0 => { let (yc, yf) = decimal(r); json!({"ev": "forms", "t": t, "op": op, "x": dj(xc, xf), "y": dj(yc, yf), "xt": "dec", "yt": "dec", "n": nn}) }
            1 | 2 | 3 => json!({"ev": "forms", "t": t, "op": op, "x": dj(xc, xf), "y": dj(i, 0), "xt": "dec", "yt": ty, "n": nn}),
            7 => json!({"ev": "forms", "t": t, "op": op, "x": dj(i, 0), "y": dj(int_value(r, ty), 0), "xt": ty, "yt": ty, "n": nn}),
            _ => json!({"ev": "forms", "t": t, "op": op, "x": dj(i, 0), "y": dj(xc, xf), "xt": ty, "yt": "dec", "n": nn}),
        };
        v.push(ev);
    }
    v
}

/// operations whose outcome depends on the thread's rounding mode (C19) on tie operands
/// C19 quantifies over rounding operations on Decimals; int.div_rounded(int, n > 18) is the open finding F3 of C04 / C20
/// (no rounding mode involved) and is left to those checks.
fn c19_in_scope(e: &Value) -> bool {
    !(e["ev"] == "bin" && e["xt"] != "dec" && e["yt"] != "dec" && e["n"].as_u64().unwrap_or(0) > 18)
}

pub fn c19_ops(r: &mut Rng, t: u32, n: usize) -> Vec<Value> {
    let mut v = vec![];
    while v.len() < n {
        match r.below(16) {
            14 | 15 => {
                // "tiny" class: the exact result is non-zero but far below one unit of the requested precision, so the answer is
                // 0 or +-1 unit depending on nothing but the thread's mode and the sign - through every rounding entry point
                let f = 3 + r.below(16) as u32;                       // 3..=18 fractional digits
                let x = neg1!(r, 1 + r.below(4) as i128);              // +-(1..4) units of 10^-f
                let n = r.below((f - 2) as u64) as i64;               // requested digits well below f
                match r.below(6) {
                    0 => { let ty = int_type(r); let i = 1 + r.below(9) as i128; v.push(bin(t, "div_rounded", dj(x, f as u8), "dec", dj(neg1!(r, i).max(if ty.starts_with('u') { 1 } else { -9 }), 0), ty, n, r.below(4))); }
                    1 => v.push(bin(t, "div_rounded", dj(x, f as u8), "dec", dj(neg1!(r, 3 + r.below(7) as i128), r.below(2) as u8), "dec", n, r.below(4))),
                    2 => v.push(bin(t, "mul_rounded", dj(x, f as u8), "dec", dj(neg1!(r, 1 + r.below(5) as i128), 0), "dec", n, r.below(4))),
                    3 => v.push(json!({"ev": "un", "t": t, "op": if r.bool() { "round" } else { "checked_round" }, "x": dj(x, f as u8), "n": n})),
                    4 => v.push(bin(t, "quantize", dj(x, f as u8), "dec", dj(neg1!(r, 1 + r.below(7) as i128), (n as u8).min(18)), "dec", 0, r.below(4))),
                    _ => v.push(json!({"ev": "fmt", "t": t, "x": dj(x, f as u8), "fi": r.below(4), "hasP": 1, "p": n, "hasW": 0, "w": 0})),
                }
            }
            11 | 12 | 13 => {
                let mut e = match r.below(5) {
                    0 => c02(r, t, 1),
                    1 => c03(r, t, 1),
                    2 => c04(r, t, 1),
                    3 => c05(r, t, 1),
                    _ => c11(r, t, 1),
                };
                e.retain(c19_in_scope);
                v.append(&mut e);
            }
            0 | 1 => v.push(set_mode(r, t)),
            2 => v.push(json!({"ev": "get", "t": t})),
            3 => {
                let f = 1 + r.below(18) as u32;
                let c = (r.range(-50, 50) as i128) * p10(1) + neg1!(r, 5);
                v.push(json!({"ev": "un", "t": t, "op": "round", "x": dj(c * p10(f - 1), f as u8), "n": 0}));
            }
            4 => {
                let (x, y) = tie_construct(r, 0);
                let (x, y) = sign2(r, x, y);
                v.push(bin(t, "div_rounded", dj(x, 0), "dec", dj(y, 0), "dec", 0, 0));
            }
            5 => {
                let x = r.range(-99, 99) as i128 * 2 + 1;
                v.push(bin(t, "mul_rounded", dj(x, 10), "dec", dj(5, 9), "dec", 18, 0));
            }
            6 => {
                let x = r.range(-99, 99) as i128 * 2 + 1;
                v.push(bin(t, "mul", dj(x, 10), "dec", dj(5, 9), "dec", 0, 0));
            }
            7 => {
                // x / 2 with x odd at scale 18: tie in the 19th place
                let x = r.range(-99, 99) as i128 * 2 + 1;
                v.push(bin(t, "div", dj(x, 18), "dec", dj(2, 0), "dec", 0, 0));
            }
            8 => {
                // any operation class of the rounding properties (C02-C05, C11), run under this thread's current mode
                let mut e = match r.below(5) {
                    0 => c02(r, t, 1),
                    1 => c03(r, t, 1),
                    2 => c04(r, t, 1),
                    3 => c05(r, t, 1),
                    _ => c11(r, t, 1),
                };
                e.retain(c19_in_scope);
                v.append(&mut e);
            }
            9 => {
                // 256-bit paths: (10^20 + 2k + 1) * 5 * 10^20 at 11 + 12 fractional digits (tie in the 19th place), and a wide quotient
                let x = p10(21) + 2 * r.below(50) as i128 + 1;      // odd: x * 0.5 is a tie in the 19th place, the product needs 256 bits
                if r.bool() {
                    v.push(bin(t, if r.bool() { "mul" } else { "mul_rounded" }, dj(neg1!(r, x), 18), "dec", dj(5 * p10(17), 18), "dec", 18, 0));
                } else {
                    let (a, b) = tie_construct(r, 30);
                    v.push(bin(t, "div_rounded", dj(neg1!(r, a), 0), "dec", dj(b, 12), "dec", 18, 0));
                }
            }
            _ => {
                let c = (r.range(-50, 50) as i128) * 10 + neg1!(r, 5);
                v.push(json!({"ev": "fmt", "t": t, "x": dj(c, 1), "fi": 0, "hasP": 1, "p": 0, "hasW": 0, "w": 0}));
            }
        }
    }
    v
}

pub fn suite(name: &str, r: &mut Rng, t: u32, n: usize) -> Vec<Value> {
    match name {
        "c01" => c01(r, t, n),
        "c02" => c02(r, t, n),
        "c03" => c03(r, t, n),
        "c04" => c04(r, t, n),
        "c05" => c05(r, t, n),
        "c06" => c06(r, t, n),
        "c07" => c07(r, t, n),
        "c08" => c08(r, t, n),
        "c08a" => c08a(r, t, n),
        "c09" => c09(r, t, n),
        "c10" => c10(r, t, n),
        "c11" => c11(r, t, n),
        "c12" => c12(r, t, n),
        "c13" => c13(r, t, n),
        "c14" => c14(r, t, n),
        "c15" => c15(r, t, n),
        "c16" => c16(r, t, n),
        "c17" => c17(r, t, n),
        "c19" => c19_ops(r, t, n),
        "c20" => {
            // the input domains of C01-C15 in one stream
            let mut v = vec![];
            let parts = ["c01", "c02", "c03", "c04", "c05", "c10", "c15", "c08", "c11", "c06", "c14", "c12", "c13", "c07", "c09", "c08a"];
            let per = n / parts.len() + 1;
            for p in parts {
                v.extend(suite(p, r, t, per));
            }
            v
        }
        other => panic!("unknown suite {}", other),
    }
}
