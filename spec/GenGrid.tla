---------------------------- MODULE GenGrid ----------------------------
(* Direction G: TLC enumerates structured input grids exhaustively; every   *)
(* emitted vector is executed on the real crate (fpv exec) and the recorded *)
(* trace is validated by Trace.tla.  The number of vectors is TLC's count   *)
(* of distinct states.  Kinds:                                              *)
(*  "kernel"  all (n, d): |n| <= NMax, 1 <= d <= DMax   (x 8 modes x sign d) *)
(*  "small"   all small Decimals x / y / n for the public rounding ops      *)
(*  "strings" all strings over a class alphabet up to length LMax           *)
(*  "bounds"  all pairs of boundary-class operands (BigInt) x scales        *)
(*  "floats"  every exponent field of f32 / f64 x fraction class x sign     *)
(*  "round"   every shift 1..38 x head class x remainder class x sign x scale *)
(*  "operands" every boundary-class operand x every scale 0..18 (unary operations) *)
(*  "ints"    d * 10^k for every d <= NMax, k <= 37, read with f <= 18 digits (integral iff k >= f: trailing zeros both ways) *)
(*  "forms"   operation x integer type x operand position x Decimal class x integer class (C17: every macro-stamped impl) *)
(*  "knuth"   digit classes of the 256/128-bit division: normalisation shift x divisor words x quotient digit x partial remainder x stage *)
EXTENDS BigInt, TLC, Json
CONSTANTS Kind, NMax, DMax, LMax, ScaleSet

(* ---- kernel / small: native integers ---- *)
YSmall == {1, 2, 3, 4, 5, 6, 7, 8, 9, 10, 12, 20, 25, 40}
(* ---- strings: alphabet as byte sequences ('é' is two bytes) ---- *)
Alphabet == << <<48>>, <<49>>, <<53>>, <<57>>, <<46>>, <<101>>, <<69>>, <<43>>, <<45>>, <<32>>, <<120>>, <<95>>, <<195, 169>> >>
(* ---- bounds: coefficient classes ---- *)
MAXC == BSub(BPow2(127), BLit(1))
RECURSIVE Pow5B(_)
Pow5B(k) == IF k = 0 THEN BLit(1) ELSE BMul(BLit(5), Pow5B(k - 1))
Tens == {1, 2, 9, 17, 18, 19, 20, 36, 37, 38}
Classes ==
  {Z0, BLit(1), BLit(2), BLit(5), BLit(10), MAXC, BSub(MAXC, BLit(1)), BPow2(64), BSub(BPow2(64), BLit(1)), BPow2(126), BPow2(63),
   BMul(BLit(5), BPow10(17)), BMul(BLit(5), BPow10(37))}
  \cup {BPow10(k) : k \in Tens} \cup {BSub(BPow10(k), BLit(1)) : k \in Tens} \cup {BAdd(BPow10(k), BLit(1)) : k \in Tens \ {38}}
  \cup {BFloorDivMod(MAXC, BPow10(k))[1] : k \in {1, 9, 17, 18}} \cup {BAdd(BFloorDivMod(MAXC, BPow10(k))[1], BLit(1)) : k \in {1, 9, 17, 18}}
  \* word-size boundaries of 64-bit fast paths and values that alias a special value in their low 64 bits
  \cup {BAdd(BPow2(63), BLit(d)) : d \in {-1, 1}} \cup {BAdd(BPow2(64), BLit(1)), BAdd(BPow2(64), BPow10(1)), BAdd(BPow2(64), BPow10(18)),
        BMul(BLit(3), BPow2(65)), BMul(BLit(5), BPow2(70)), BPow2(96), BMul(BLit(95), BPow10(17)), BMul(BLit(923), BPow10(16))}
  \* odd multiples of high powers of five (dyadic fractions q / 2^j stored without trailing zeros)
  \cup {Pow5B(16), Pow5B(17), Pow5B(18), BMul(BLit(3), Pow5B(16)), BMul(BLit(7), Pow5B(18)), Pow5B(27), Pow5B(54)}
  \* the largest integral value representable with k fractional digits: floor(MAX / 10^k) * 10^k
  \cup {BMul(BFloorDivMod(MAXC, BPow10(k))[1], BPow10(k)) : k \in {1, 2, 3, 9, 17, 18}}
Signed == Classes \cup {BNeg(c) : c \in Classes}
\* the complete single-point list for unary operations: every power of two and of ten with its neighbours, every scaling
\* bound floor(MAX/10^k) with its successor and its integral image, every power of five
Dm(k) == BFloorDivMod(MAXC, BPow10(k))[1]
AllPoints == Classes
  \cup {BPow2(k) : k \in 1..126} \cup {BSub(BPow2(k), BLit(1)) : k \in 2..127} \cup {BAdd(BPow2(k), BLit(1)) : k \in 1..126}
  \cup {BPow10(k) : k \in 0..38} \cup {BSub(BPow10(k), BLit(1)) : k \in 1..38} \cup {BAdd(BPow10(k), BLit(1)) : k \in 0..37}
  \cup {Dm(k) : k \in 1..38} \cup {BAdd(Dm(k), BLit(1)) : k \in 1..38} \cup {BMul(Dm(k), BPow10(k)) : k \in 1..38}
  \cup {Pow5B(k) : k \in 1..54} \cup {BMul(BLit(5), BPow10(k)) : k \in 0..37}
SignedAll == AllPoints \cup {BNeg(c) : c \in AllPoints}

VARIABLES a, b, out
vars == <<a, b, out>>
Init ==
  /\ out = "-"
  /\ CASE Kind = "kernel" -> a \in (0 - NMax)..NMax /\ b = 0
       [] Kind = "small" -> a \in {<<c, f>> : c \in (0 - NMax)..NMax, f \in 0..2} /\ b = 0
       [] Kind = "strings" -> a = <<>> /\ b = 0
       [] Kind = "bounds" -> a \in {[c |-> c, f |-> f] : c \in Signed, f \in ScaleSet} /\ b = 0
       [] Kind = "floats" -> a \in 0..2047 /\ b = 0
       [] Kind = "round" -> a \in 1..38 /\ b = 0
       [] Kind = "operands" -> a \in SignedAll /\ b = 0
       [] Kind = "ints" -> a \in 1..NMax /\ b = 0
       [] Kind = "forms" -> a \in 1..15 /\ b = 0
       [] Kind = "knuth" -> a \in 0..5 /\ b = 0
Next ==
  CASE Kind = "kernel" -> out = "-" /\ \E d \in 1..DMax : out' = ToJson(<<a, d>>) /\ UNCHANGED <<a, b>>
    [] Kind = "small" -> out = "-" /\ \E yc \in YSmall, s \in {-1, 1}, yf \in 0..1, n \in 0..2 :
                           out' = ToJson(<<a[1], a[2], s * yc, yf, n>>) /\ UNCHANGED <<a, b>>
    [] Kind = "strings" -> Len(a) < LMax /\ \E i \in 1..Len(Alphabet) : a' = Append(a, i) /\ out' = ToJson(a') /\ UNCHANGED b
    [] Kind = "bounds" -> out = "-" /\ \E y \in {[c |-> c, f |-> f] : c \in Signed, f \in ScaleSet} :
                           out' = ToJson([x |-> [s |-> a.c.s, m |-> a.c.m, f |-> a.f], y |-> [s |-> y.c.s, m |-> y.c.m, f |-> y.f]]) /\ UNCHANGED <<a, b>>
    [] Kind = "floats" -> out = "-" /\ \E w \in {32, 64}, fc \in 0..(NMax - 1), sg \in {0, 1} :
                           (w = 64 \/ a <= 255) /\ out' = ToJson(<<w, sg, a, fc>>) /\ UNCHANGED <<a, b>>
    [] Kind = "round" -> out = "-" /\ \E hc \in 0..3, rc \in 0..5, sg \in {-1, 1}, f \in ScaleSet :
                           out' = ToJson(<<a, hc, rc, sg, f>>) /\ UNCHANGED <<a, b>>
    [] Kind = "operands" -> out = "-" /\ \E f \in 0..18 : out' = ToJson([s |-> a.s, m |-> a.m, f |-> f]) /\ UNCHANGED <<a, b>>
    [] Kind = "ints" -> out = "-" /\ \E k \in 0..37, f \in 0..18, sg \in {-1, 1} : out' = ToJson(<<a, k, f, sg>>) /\ UNCHANGED <<a, b>>
    [] Kind = "forms" -> out = "-" /\ \E ty \in 0..9, pos \in 0..1, xi \in 1..NMax, ii \in 1..DMax :
                           out' = ToJson(<<a, ty, pos, xi, ii>>) /\ UNCHANGED <<a, b>>
    [] Kind = "knuth" -> out = "-" /\ \E y1 \in 0..4, y0 \in 0..3, qc \in 0..5, rc \in 0..7, st \in 0..2 :
                           out' = ToJson(<<a, y1, y0, qc, rc, st>>) /\ UNCHANGED <<a, b>>
Spec == Init /\ [][Next]_vars
Emit == out = "-" \/ PrintT("VEC " \o out)
=======================================================================
