---------------------------- MODULE BigInt ----------------------------
(* Arbitrary precision integers in pure TLA+ (TLC's Int is 32 bit).        *)
(* A natural number is a little-endian sequence of limbs in base B with no *)
(* most-significant zero limb; zero is <<>>.  A signed integer is a record *)
(* [s |-> -1|0|1, m |-> limbs].  B = 10^4 so that limb products fit 32 bit *)
(* and decimal I/O is a re-grouping of digits.                             *)
(* Checked against TLC's built-in arithmetic by MC_BigInt.                  *)
EXTENDS Integers, Sequences
B == 10000

RECURSIVE Trim(_)
Trim(a) == IF a = <<>> THEN a ELSE IF a[Len(a)] = 0 THEN Trim(SubSeq(a, 1, Len(a)-1)) ELSE a

Limb(a, i) == IF i <= Len(a) THEN a[i] ELSE 0
IMax(x, y) == IF x > y THEN x ELSE y
IMin(x, y) == IF x < y THEN x ELSE y

RECURSIVE CmpFrom(_,_,_)
CmpFrom(a, b, i) == IF i = 0 THEN 0 ELSE IF a[i] > b[i] THEN 1 ELSE IF a[i] < b[i] THEN -1 ELSE CmpFrom(a, b, i-1)
NCmp(a, b) == IF Len(a) > Len(b) THEN 1 ELSE IF Len(a) < Len(b) THEN -1 ELSE CmpFrom(a, b, Len(a))

RECURSIVE AddC(_,_,_,_,_)
AddC(a, b, i, c, acc) ==
  IF i > Len(a) /\ i > Len(b) THEN (IF c = 0 THEN acc ELSE Append(acc, c))
  ELSE LET s == Limb(a,i) + Limb(b,i) + c IN AddC(a, b, i+1, s \div B, Append(acc, s % B))
NAdd(a, b) == AddC(a, b, 1, 0, <<>>)

\* a >= b
RECURSIVE SubC(_,_,_,_,_)
SubC(a, b, i, br, acc) ==
  IF i > Len(a) THEN Trim(acc)
  ELSE LET s == a[i] - Limb(b,i) - br IN
       IF s < 0 THEN SubC(a, b, i+1, 1, Append(acc, s + B)) ELSE SubC(a, b, i+1, 0, Append(acc, s))
NSub(a, b) == SubC(a, b, 1, 0, <<>>)

RECURSIVE MulSmallC(_,_,_,_,_)
MulSmallC(a, d, i, c, acc) ==
  IF i > Len(a) THEN (IF c = 0 THEN acc ELSE Append(acc, c))
  ELSE LET s == a[i]*d + c IN MulSmallC(a, d, i+1, s \div B, Append(acc, s % B))
\* d < B
NMulSmall(a, d) == IF d = 0 \/ a = <<>> THEN <<>> ELSE MulSmallC(a, d, 1, 0, <<>>)

\* schoolbook multiplication by column sums; a column has at most min(Len a, Len b) terms,
\* each < 10^8, so it fits 31 bits while min(Len) <= 21 (84 decimal digits); asserted.
RECURSIVE ColSum(_,_,_,_,_)
ColSum(a, b, k, i, hi) == IF i > hi THEN 0 ELSE a[i]*b[k+1-i] + ColSum(a, b, k, i+1, hi)
RECURSIVE CarryNorm(_,_,_,_)
CarryNorm(cols, i, c, acc) ==
  IF i > Len(cols) THEN (IF c = 0 THEN acc ELSE IF c < B THEN Append(acc, c) ELSE Append(Append(acc, c % B), c \div B))
  ELSE LET s == cols[i] + c IN CarryNorm(cols, i+1, s \div B, Append(acc, s % B))
\* to stay inside 31 bits for long operands the carry is propagated per column (s < 21*10^8 + carry)
NMulRaw(a, b) ==
  LET n == Len(a) m == Len(b)
      cols == [k \in 1..(n+m-1) |-> ColSum(a, b, k, IMax(1, k+1-m), IF k < n THEN k ELSE n)]
  IN Trim(CarryNorm(cols, 1, 0, <<>>))
\* long operands: split the longer one in chunks of 16 limbs
RECURSIVE MulChunks(_,_,_)
ShiftLimbs(a, k) == IF a = <<>> THEN a ELSE [i \in 1..k |-> 0] \o a
MulChunks(a, b, off) ==   \* Len(b) <= 16
  IF off >= Len(a) THEN <<>>
  ELSE LET hi == IMin(Len(a), off + 16)
           part == Trim(SubSeq(a, off + 1, hi))
           p == IF part = <<>> THEN <<>> ELSE ShiftLimbs(NMulRaw(part, b), off)
       IN NAdd(p, MulChunks(a, b, off + 16))
RECURSIVE MulOuter(_,_,_)
MulOuter(a, b, off) ==
  IF off >= Len(b) THEN <<>>
  ELSE LET hi == IMin(Len(b), off + 16)
           part == Trim(SubSeq(b, off + 1, hi))
           p == IF part = <<>> THEN <<>> ELSE ShiftLimbs(MulChunks(a, part, 0), off)
       IN NAdd(p, MulOuter(a, b, off + 16))
NMul(a, b) ==
  IF a = <<>> \/ b = <<>> THEN <<>>
  ELSE IF Len(a) <= 16 \/ Len(b) <= 16 THEN NMulRaw(a, b)
  ELSE MulOuter(a, b, 0)

\* long division (Knuth D with normalisation), base-B limbs
RECURSIVE FixDown(_,_,_)
FixDown(r, b, d) == IF d = 0 THEN 0 ELSE IF NCmp(NMulSmall(b, d), r) <= 0 THEN d ELSE FixDown(r, b, d-1)
QEst(r, b) == \* b normalised (top limb >= B/2), r < b*B
  IF NCmp(r, b) < 0 THEN 0 ELSE
  LET lr == Len(r) lb == Len(b)
      rt == IF lr > lb THEN r[lr]*B + r[lr-1] ELSE r[lr]
      q0 == rt \div b[lb]
  IN FixDown(r, b, IF q0 > B-1 THEN B-1 ELSE q0)
RECURSIVE DivLoop(_,_,_,_,_)
DivLoop(a, b, i, r, q) ==
  IF i = 0 THEN <<Trim(q), r>> ELSE
  LET r1 == Trim(<<a[i]>> \o r)
      d == QEst(r1, b)
      r2 == IF d = 0 THEN r1 ELSE NSub(r1, NMulSmall(b, d))
  IN DivLoop(a, b, i-1, r2, <<d>> \o q)
RECURSIVE DivSmallLoop(_,_,_,_,_)
DivSmallLoop(a, d, i, r, q) ==
  IF i = 0 THEN <<Trim(q), r>> ELSE
  LET t == r*B + a[i] IN DivSmallLoop(a, d, i-1, t % d, <<t \div d>> \o q)
NDivSmall(a, d) == DivSmallLoop(a, d, Len(a), 0, <<>>)  \* 0 < d < B ; remainder is an Int
\* <<quotient, remainder>> for b # <<>>
NDivMod(a, b) ==
  IF NCmp(a, b) < 0 THEN <<(<<>>), a>>
  ELSE IF Len(b) = 1 THEN LET qr == NDivSmall(a, b[1]) IN <<qr[1], IF qr[2] = 0 THEN <<>> ELSE <<qr[2]>> >>
  ELSE
  LET f == B \div (b[Len(b)] + 1)
      an == NMulSmall(a, f) bn == NMulSmall(b, f)
      qr == DivLoop(an, bn, Len(an), <<>>, <<>>)
  IN <<qr[1], IF f = 1 THEN qr[2] ELSE NDivSmall(qr[2], f)[1]>>

\* 10^k as limbs, built directly (TLC does not cache zero-arity definitions; keep constants cheap)
NPow10(k) == [i \in 1..(k \div 4) |-> 0] \o << (CASE k % 4 = 0 -> 1 [] k % 4 = 1 -> 10 [] k % 4 = 2 -> 100 [] OTHER -> 1000) >>
RECURSIVE NatLimbs(_)
NatLimbs(n) == IF n = 0 THEN <<>> ELSE <<n % B>> \o NatLimbs(n \div B)
\* number of decimal digits of a magnitude (0 for zero)
DigitsOfLimb(x) == IF x >= 1000 THEN 4 ELSE IF x >= 100 THEN 3 ELSE IF x >= 10 THEN 2 ELSE 1
NDigits(a) == IF a = <<>> THEN 0 ELSE 4*(Len(a)-1) + DigitsOfLimb(a[Len(a)])

(* ---------------------------- signed ---------------------------- *)
Z0 == [s |-> 0, m |-> <<>>]
Mk(s, m) == IF m = <<>> THEN Z0 ELSE [s |-> s, m |-> m]
BLit(n) == IF n = 0 THEN Z0 ELSE IF n > 0 THEN [s |-> 1, m |-> NatLimbs(n)] ELSE [s |-> -1, m |-> NatLimbs(-n)]
BNeg(a) == [s |-> -a.s, m |-> a.m]
BAbs(a) == [s |-> IF a.s = 0 THEN 0 ELSE 1, m |-> a.m]
BSign(a) == a.s
BCmp(a, b) == IF a.s # b.s THEN (IF a.s > b.s THEN 1 ELSE -1)
              ELSE IF a.s = 0 THEN 0 ELSE a.s * NCmp(a.m, b.m)
BAdd(a, b) == IF a.s = 0 THEN b ELSE IF b.s = 0 THEN a
              ELSE IF a.s = b.s THEN [s |-> a.s, m |-> NAdd(a.m, b.m)]
              ELSE LET c == NCmp(a.m, b.m) IN
                   IF c = 0 THEN Z0 ELSE IF c > 0 THEN [s |-> a.s, m |-> NSub(a.m, b.m)]
                   ELSE [s |-> b.s, m |-> NSub(b.m, a.m)]
BSub(a, b) == BAdd(a, BNeg(b))
BMul(a, b) == IF a.s = 0 \/ b.s = 0 THEN Z0 ELSE [s |-> a.s * b.s, m |-> NMul(a.m, b.m)]
BPow10(k) == [s |-> 1, m |-> NPow10(k)]
RECURSIVE BPow2(_)
BPow2(k) == IF k = 0 THEN BLit(1) ELSE IF k >= 13 THEN BMul(BLit(8192), BPow2(k-13)) ELSE BMul(BLit(2), BPow2(k-1))
\* floor division by a positive divisor: <<q, r>> with n = q*d + r, 0 <= r < d
BFloorDivMod(n, d) ==
  IF n.s = 0 THEN <<Z0, Z0>> ELSE
  LET qr == NDivMod(n.m, d.m) IN
  IF n.s > 0 THEN <<Mk(1, qr[1]), Mk(1, qr[2])>>
  ELSE IF qr[2] = <<>> THEN <<Mk(-1, qr[1]), Z0>>
       ELSE <<Mk(-1, NAdd(qr[1], <<1>>)), Mk(1, NSub(d.m, qr[2]))>>
BIsEven(a) == a.s = 0 \/ a.m[1] % 2 = 0
BMod5Is0(a) == a.s = 0 \/ a.m[1] % 5 = 0      \* B is divisible by 10
BMod10(a) == IF a.s = 0 THEN 0 ELSE a.m[1] % 10  \* |a| mod 10
BDigits(a) == NDigits(a.m)
\* 2^127-1 and -2^127 as literals (checked against BPow2 by MC_BigInt)
I128MaxLit == [s |-> 1, m |-> <<5727, 8410, 7158, 7303, 3168, 2317, 469, 8346, 1411, 170>>]
I128MinLit == [s |-> -1, m |-> <<5728, 8410, 7158, 7303, 3168, 2317, 469, 8346, 1411, 170>>]
=======================================================================
