INIT Init
NEXT Next
INVARIANT RefineAdd
INVARIANT RoundLaws
CHECK_DEADLOCK FALSE
