SPECIFICATION Spec
CONSTANTS Kind = "floats"
 NMax = 4
 DMax = 0
 LMax = 0
 ScaleSet = {0}
INVARIANT Emit
CHECK_DEADLOCK FALSE
