---- MODULE ParseSpike ----
\* C06 spike at real constants: grammar recogniser (WHAT) + transcription of the crate's parser (HOW)
\* + per-site deviation predicates, validated on recorded from_str outcomes.
EXTENDS BigDom, Json, IOUtils, Sequences, TLC
IsDigit(b) == 48 <= b /\ b <= 57
RECURSIVE Span(_,_)
Span(bs, i) == IF i <= Len(bs) /\ IsDigit(bs[i]) THEN Span(bs, i+1) ELSE i
RECURSIVE SkipZeros(_,_,_)
SkipZeros(bs, i, j) == IF i < j /\ bs[i] = 48 THEN SkipZeros(bs, i+1, j) ELSE i
\* digits bs[i..j-1] as a natural number in base-10^4 limbs (little endian), built from the right
Grp(bs, i, j) == LET a == IF j-4 >= i THEN j-4 ELSE i IN
   <<a, IF j - a = 4 THEN (bs[a]-48)*1000 + (bs[a+1]-48)*100 + (bs[a+2]-48)*10 + (bs[a+3]-48)
        ELSE IF j - a = 3 THEN (bs[a]-48)*100 + (bs[a+1]-48)*10 + (bs[a+2]-48)
        ELSE IF j - a = 2 THEN (bs[a]-48)*10 + (bs[a+1]-48) ELSE bs[a]-48>>
RECURSIVE LimbsOf(_,_,_)
LimbsOf(bs, i, j) == IF j <= i THEN <<>> ELSE LET g == Grp(bs, i, j) IN <<g[2]>> \o LimbsOf(bs, i, g[1])
DigitsVal(bs, i, j) == Mk(1, Trim(LimbsOf(bs, i, j)))
\* small saturating value of an exponent digit run
RECURSIVE SmallVal(_,_,_,_)
SmallVal(bs, i, j, acc) == IF i >= j THEN acc ELSE SmallVal(bs, i+1, j, IF acc >= 100000 THEN acc ELSE acc*10 + (bs[i]-48))

Shape(bs) ==   \* lexical decomposition shared by spec and transcription
  LET n == Len(bs)
      hasSign == n >= 1 /\ bs[1] \in {43, 45}
      i1 == IF hasSign THEN 2 ELSE 1
      i2 == Span(bs, i1)
      hasDot == i2 <= n /\ bs[i2] = 46
      i3 == IF hasDot THEN Span(bs, i2 + 1) ELSE i2
      hasE == i3 <= n /\ bs[i3] \in {101, 69}
      eSign == hasE /\ i3 + 1 <= n /\ bs[i3+1] \in {43, 45}
      i4 == IF hasE THEN (IF eSign THEN i3 + 2 ELSE i3 + 1) ELSE i3
      i5 == IF hasE THEN Span(bs, i4) ELSE i3
  IN [n |-> n, neg |-> (n >= 1 /\ bs[1] = 45), i1 |-> i1, i2 |-> i2, hasDot |-> hasDot, f1 |-> i2 + 1, i3 |-> i3,
      fl |-> IF hasDot THEN i3 - (i2 + 1) ELSE 0, hasE |-> hasE, eSign |-> eSign, eNeg |-> (eSign /\ bs[i3+1] = 45),
      i4 |-> i4, i5 |-> i5, end |-> i5]
Ok(c, f) == [k |-> "ok", c |-> c, f |-> f]
Err == [k |-> "err", c |-> Z0, f |-> 0]
Empty == [k |-> "empty", c |-> Z0, f |-> 0]
I128Max == BSub(BPow2(127), BLit(1))

MantVal(bs, sh) == LET ip == DigitsVal(bs, sh.i1, sh.i2)
                       fp == IF sh.hasDot THEN DigitsVal(bs, sh.f1, sh.i3) ELSE Z0
                   IN BAdd(BMul(ip, BPow10(sh.fl)), fp)
\* ---- WHAT: the property's grammar and value rule ----
ParseAllowed(bs) ==
  LET sh == Shape(bs)
      intLen == sh.i2 - sh.i1
      wellFormed == (intLen > 0 \/ sh.fl > 0) /\ (~sh.hasE \/ sh.i5 > sh.i4) /\ sh.end = sh.n + 1
      e0 == IF sh.hasE THEN SmallVal(bs, sh.i4, sh.i5, 0) ELSE 0
      e == IF sh.eNeg THEN -e0 ELSE e0
      nf == IF sh.fl - e > 0 THEN sh.fl - e ELSE 0
      up == IF e - sh.fl > 0 THEN e - sh.fl ELSE 0
      v == MantVal(bs, sh)
  IN IF sh.n = 0 THEN {Empty}
     ELSE IF ~wellFormed THEN {Err}
     ELSE IF nf > 18 THEN {Err}
     ELSE IF v.s = 0 THEN (IF up > 38 THEN {Ok(Z0, nf), Err} ELSE {Ok(Z0, nf)})     \* zero with absurd exponent: either
     ELSE IF up > 38 THEN {Err}
     ELSE LET c == BMul(v, BPow10(up)) IN
          IF BCmp(c, I128Max) > 0 THEN {Err} ELSE {Ok(IF sh.neg THEN BNeg(c) ELSE c, nf)}

\* ---- HOW: transcription of fpdec-core str_to_dec + Decimal::from_str (what the code does) ----
Mod2_128(v) == BFloorDivMod(v, BPow2(128))[2]
ImplParse(bs) ==
  LET sh == Shape(bs)
      z == SkipZeros(bs, sh.i1, sh.i2)                    \* skip_leading_zeroes
      onlyZeros == z = sh.n + 1 /\ sh.i2 = sh.n + 1 /\ sh.i2 > sh.i1
      nInt == sh.i2 - z
      nDigits == nInt + sh.fl
      v == MantVal(bs, sh)
      coeff == Mod2_128(v)                                \* wrapping accumulate
      ovf == nDigits > 39 \/ (nDigits = 39 /\ BCmp(coeff, BPow10(38)) < 0) \/ BCmp(coeff, I128Max) > 0
      nExp == sh.i5 - sh.i4
      e0 == IF sh.hasE THEN SmallVal(bs, sh.i4, sh.i5, 0) ELSE 0
      e == (IF sh.eNeg THEN -e0 ELSE e0) - sh.fl
  IN IF sh.n = 0 THEN Empty
     ELSE IF sh.i1 > sh.n THEN Err                        \* only a sign
     ELSE IF onlyZeros THEN Ok(Z0, 0)
     ELSE IF nDigits = 0 THEN Err
     ELSE IF ovf THEN Err
     ELSE IF ~sh.hasE /\ sh.i3 <= sh.n THEN Err           \* trailing garbage
     ELSE IF sh.hasE /\ sh.i3 + 1 > sh.n THEN Err         \* 'e' at the very end
     ELSE IF sh.hasE /\ nExp > 2 THEN Err
     ELSE IF sh.end # sh.n + 1 THEN Err
     ELSE IF -e > 18 THEN Err
     ELSE IF e > 38 THEN Err
     ELSE IF e < 0 THEN Ok(IF sh.neg THEN BNeg(coeff) ELSE coeff, -e)
     ELSE LET c == BMul(coeff, BPow10(e)) IN IF BCmp(c, I128Max) > 0 THEN Err ELSE Ok(IF sh.neg THEN BNeg(c) ELSE c, 0)
\* ---- per-site conditions of the known deviations ----
Site(bs) ==
  LET sh == Shape(bs)  z == SkipZeros(bs, sh.i1, sh.i2)  nDigits == (sh.i2 - z) + sh.fl  v == MantVal(bs, sh) IN
  IF sh.hasE /\ sh.eSign /\ sh.i5 = sh.i4 THEN "F8"
  ELSE IF sh.hasE /\ sh.i5 - sh.i4 > 2 THEN "F7"
  ELSE IF sh.i2 > sh.i1 /\ z = sh.i2 /\ sh.fl = 0 THEN "F6"
  ELSE IF nDigits = 39 /\ BCmp(v, BPow2(128)) >= 0 THEN "F5"
  ELSE IF nDigits > 39 THEN "F9"
  ELSE "none"
Rec == ndJsonDeserialize(IOEnv.TRACE)
VARIABLES l, bad, known, implDiff
Obs(e) == IF e.k = "ok" THEN Ok(Mk(e.s, e.m), e.f) ELSE IF e.k = "empty" THEN Empty ELSE Err
Init == l = 1 /\ bad = <<>> /\ known = <<>> /\ implDiff = <<>>
Next == /\ l <= Len(Rec)
        /\ LET e == Rec[l]  o == Obs(e.out)  al == ParseAllowed(e.bs)  im == ImplParse(e.bs)  site == Site(e.bs) IN
           /\ implDiff' = IF o = im THEN implDiff ELSE Append(implDiff, l)
           /\ IF o \in al THEN UNCHANGED <<bad, known>>
              ELSE IF site # "none" /\ o = im THEN known' = Append(known, site) /\ UNCHANGED bad
              ELSE bad' = Append(bad, l) /\ UNCHANGED known
        /\ l' = l + 1
Spec == Init /\ [][Next]_<<l, bad, known, implDiff>>
Count(s, x) == Len(SelectSeq(s, LAMBDA y : y = x))
Report == l <= Len(Rec) \/ PrintT(<<"RESULT", Len(Rec), "bad", bad, "implDiff", implDiff,
     "F5", Count(known,"F5"), "F6", Count(known,"F6"), "F7", Count(known,"F7"), "F8", Count(known,"F8"), "F9", Count(known,"F9")>>)
====
