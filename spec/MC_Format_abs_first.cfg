INIT Init
NEXT Next
CONSTANTS CMax = 60
 MaxFracP = 2
 Variant = "abs_first"
INVARIANTS StringRefines DisplayRefines
CHECK_DEADLOCK FALSE
