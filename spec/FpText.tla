---------------------------- MODULE FpText ----------------------------
(* C06 C07 C11 C18: the literal grammar, the canonical text and Display    *)
(* with precision / width / fill / alignment / sign / zero flags, on       *)
(* sequences of bytes resp. code points.  BigInt only (digit strings).      *)
EXTENDS BigInt
CONSTANTS MaxFrac, CoeffBits
CoeffMaxT == IF CoeffBits = 127 THEN I128MaxLit ELSE BSub(BPow2(CoeffBits), BLit(1))
MaxDigitsT == IF CoeffBits = 127 THEN 39 ELSE BDigits(CoeffMaxT)

IsDigit(b) == 48 <= b /\ b <= 57
RECURSIVE Span(_,_)
Span(bs, i) == IF i <= Len(bs) /\ IsDigit(bs[i]) THEN Span(bs, i+1) ELSE i
\* digits bs[i..j-1] as a natural number in base-10^4 limbs, built from the right
Grp(bs, i, j) == LET a == IF j-4 >= i THEN j-4 ELSE i IN
   <<a, IF j - a = 4 THEN (bs[a]-48)*1000 + (bs[a+1]-48)*100 + (bs[a+2]-48)*10 + (bs[a+3]-48)
        ELSE IF j - a = 3 THEN (bs[a]-48)*100 + (bs[a+1]-48)*10 + (bs[a+2]-48)
        ELSE IF j - a = 2 THEN (bs[a]-48)*10 + (bs[a+1]-48) ELSE bs[a]-48>>
RECURSIVE LimbsOf(_,_,_)
LimbsOf(bs, i, j) == IF j <= i THEN <<>> ELSE LET g == Grp(bs, i, j) IN <<g[2]>> \o LimbsOf(bs, i, g[1])
DigitsVal(bs, i, j) == Mk(1, Trim(LimbsOf(bs, i, j)))
\* saturating small value of an exponent digit run
RECURSIVE SmallVal(_,_,_,_)
SmallVal(bs, i, j, acc) == IF i >= j THEN acc ELSE SmallVal(bs, i+1, j, IF acc >= 100000 THEN acc ELSE acc*10 + (bs[i]-48))

(* lexical decomposition  [+-] digits [. digits] [ (e|E) [+-] digits ] rest *)
Shape(bs) ==
  LET n == Len(bs)
      hasSign == n >= 1 /\ bs[1] \in {43, 45}
      i1 == IF hasSign THEN 2 ELSE 1
      i2 == Span(bs, i1)
      hasDot == i2 <= n /\ bs[i2] = 46
      i3 == IF hasDot THEN Span(bs, i2 + 1) ELSE i2
      hasE == i3 <= n /\ bs[i3] \in {101, 69}
      eSign == hasE /\ i3 + 1 <= n /\ bs[i3+1] \in {43, 45}
      i4 == IF hasE THEN (IF eSign THEN i3 + 2 ELSE i3 + 1) ELSE i3
      i5 == IF hasE THEN Span(bs, i4) ELSE i3
  IN [n |-> n, neg |-> (n >= 1 /\ bs[1] = 45), i1 |-> i1, i2 |-> i2, hasDot |-> hasDot, f1 |-> i2 + 1, i3 |-> i3,
      fl |-> IF hasDot THEN i3 - (i2 + 1) ELSE 0, hasE |-> hasE, eSign |-> eSign, eNeg |-> (eSign /\ bs[i3+1] = 45),
      i4 |-> i4, i5 |-> i5, end |-> i5]
MantVal(bs, sh) == LET ip == DigitsVal(bs, sh.i1, sh.i2)
                       fp == IF sh.hasDot THEN DigitsVal(bs, sh.f1, sh.i3) ELSE Z0
                   IN BAdd(BMul(ip, BPow10(sh.fl)), fp)
WellFormed(bs) == LET sh == Shape(bs) IN
   /\ sh.n > 0 /\ ((sh.i2 - sh.i1) > 0 \/ sh.fl > 0) /\ (~sh.hasE \/ sh.i5 > sh.i4) /\ sh.end = sh.n + 1

(* Parse outcomes: [k |-> "ok", c, f] | [k |-> "empty"] | [k |-> "err"] (any other error kind) | other *)
\* the value rule of C06: <<kind, c, f>> with kind in {"empty","err","ok","zero_either"}
ParseVal(bs) ==
  LET sh == Shape(bs)
      e0 == IF sh.hasE THEN SmallVal(bs, sh.i4, sh.i5, 0) ELSE 0
      e == IF sh.eNeg THEN 0 - e0 ELSE e0
      nf == IF sh.fl - e > 0 THEN sh.fl - e ELSE 0
      up == IF e - sh.fl > 0 THEN e - sh.fl ELSE 0
      v == MantVal(bs, sh)
  IN IF sh.n = 0 THEN <<"empty", Z0, 0>>
     ELSE IF ~WellFormed(bs) THEN <<"err", Z0, 0>>
     ELSE IF nf > MaxFrac THEN <<"err", Z0, 0>>
     ELSE IF v.s = 0 THEN (IF up >= MaxDigitsT THEN <<"zero_either", Z0, nf>> ELSE <<"ok", Z0, nf>>)
     ELSE IF up >= MaxDigitsT THEN <<"err", Z0, 0>>
     ELSE LET c == BMul(v, BPow10(up)) IN
          IF BCmp(c, CoeffMaxT) > 0 THEN <<"err", Z0, 0>> ELSE <<"ok", IF sh.neg THEN BNeg(c) ELSE c, nf>>
ParseOk(bs, o) ==
  LET pv == ParseVal(bs) IN
  CASE pv[1] = "empty" -> o.k = "empty"
    [] pv[1] = "err" -> o.k = "err"
    [] pv[1] = "ok" -> o.k = "ok" /\ o.c = pv[2] /\ o.f = pv[3]
    [] pv[1] = "zero_either" -> o.k = "err" \/ (o.k = "ok" /\ o.c = Z0 /\ o.f = pv[3])

(* ---- canonical text ---- *)
Limb4(x) == <<x \div 1000, (x \div 100) % 10, (x \div 10) % 10, x % 10>>
RECURSIVE StripLead(_)
StripLead(ds) == IF Len(ds) > 1 /\ ds[1] = 0 THEN StripLead(Tail(ds)) ELSE ds
RECURSIVE AllDigits(_,_)
AllDigits(m, i) == IF i = 0 THEN <<>> ELSE Limb4(m[i]) \o AllDigits(m, i-1)
DigitsOf(m) == IF m = <<>> THEN <<0>> ELSE StripLead(AllDigits(m, Len(m)))
Zeros(k) == [i \in 1..k |-> 0]
Codes(ds) == [i \in 1..Len(ds) |-> 48 + ds[i]]
\* "<int>[.<P digits>]" for magnitude m read with P fractional digits
Body(m, P) ==
  LET ds0 == DigitsOf(m)
      ds == IF Len(ds0) < P + 1 THEN Zeros(P + 1 - Len(ds0)) \o ds0 ELSE ds0
      k == Len(ds) - P
  IN IF P = 0 THEN Codes(ds) ELSE Codes(SubSeq(ds, 1, k)) \o <<46>> \o Codes(SubSeq(ds, k+1, Len(ds)))
Canon(c, f) == (IF c.s < 0 THEN <<45>> ELSE <<>>) \o Body(c.m, f)
DebugText(c, f) == <<68,101,99,33,40>> \o Canon(c, f) \o <<41>>      \* Dec!( .. )
JsonText(c, f) == <<34>> \o Canon(c, f) \o <<34>>

(* ---- Display with flags (Rust's Formatter::pad_integral) ---- *)
Fill(ch, k) == [i \in 1..k |-> ch]
Pad(nonneg, body, hasW, w, fill, align, plus, zero) ==
  LET sg == IF ~nonneg THEN <<45>> ELSE IF plus THEN <<43>> ELSE <<>>
      n == Len(body) + Len(sg)
      k == w - n
  IN IF ~hasW \/ n >= w THEN sg \o body
     ELSE IF zero THEN sg \o Fill(48, k) \o body
     ELSE IF align = "<" THEN sg \o body \o Fill(fill, k)
     ELSE IF align = "^" THEN Fill(fill, k \div 2) \o sg \o body \o Fill(fill, (k + 1) \div 2)
     ELSE Fill(fill, k) \o sg \o body
\* rq(n, d, mode): the rounding function (FpDec!RoundQ), passed in by the instantiating module
Display(rq(_,_,_), c, f, mode, hasP, p, hasW, w, fill, align, plus, zero) ==
  LET P == IF ~hasP THEN f ELSE IF p > MaxFrac THEN MaxFrac ELSE p
      mag == IF P >= f THEN BMul(BAbs(c), BPow10(P - f)).m ELSE rq(c, BPow10(f - P), mode).m
  IN Pad(c.s >= 0, Body(mag, P), hasW, w, fill, align, plus, zero)
=======================================================================
