INIT Init
NEXT Next
CONSTANTS W = 4
 Variant = "ok"
INVARIANT Correct
INVARIANT MulCorrect
CHECK_DEADLOCK FALSE
