from fractions import Fraction
from collections import Counter, defaultdict
MAX=(1<<127)-1
bad=defaultdict(list); cnt=Counter()
def ret(c,s): return f"{c}:{s}"
def cmpo(a,b): return 'Some(Less)' if a<b else ('Some(Greater)' if a>b else 'Some(Equal)')
for line in open('out4.txt'):
    p=line.split()
    if p[0]=='U':
        c,s=int(p[1]),int(p[2]); g=dict(kv.split('=') for kv in p[3:17]); v=Fraction(c,10**s)
        t=10**s
        fl=c//t; ce=-((-c)//t); tr=abs(c)//t*(1 if c>=0 else -1); fr=c-tr*t
        exp=dict(floor=ret(fl,0),ceil=ret(ce,0),trunc=ret(tr,0),abs=ret(abs(c),s),neg=ret(-c,s),
                 mag=str(0 if c==0 else len(str(abs(c)))-1-s), z=str(c==0).lower(), o=str(c==t).lower(), ng=str(c<0).lower(), ps=str(c>0).lower())
        for k,e in exp.items():
            cnt[k]+=1
            if g[k]!=e: bad[k].append((c,s,g[k],e))
        cnt['fract']+=1
        fc,fs=map(int,g['fract'].split(':'))
        if not (Fraction(fc,10**fs)==Fraction(fr,t) and (fs==s or (s==0))): bad['fract'].append((c,s,g['fract'],ret(fr,s)))
        cnt['hash']+=1
        if g['hd']!=g['hr']: bad['hash'].append((c,s))
        alt=line.split('alt=')[1].split()
        if alt[0]!='-':
            cnt['alt']+=1
            if alt[1]!='true' or alt[2]!='true': bad['alt'].append((c,s,alt))
    elif p[0]=='K':
        c,s,i,u=map(int,p[1:5]); v=Fraction(c,10**s)
        rest=p[5:]
        exp=[cmpo(v,i),cmpo(i,v),str(v==i).lower(),str(v==i).lower(),cmpo(v,u),cmpo(u,v),str(v==u).lower(),str(v==u).lower()]
        cnt['K']+=1
        if rest!=exp: bad['K'].append((c,s,i,u,rest,exp))
    elif p[0]=='W':
        a,b,m,pw=map(int,p[1:5]); rest=line.split(' ',5)[5].strip()
        # two outputs: "Some((q, r))" or None ; split at boundary
        import re
        outs=re.findall(r'None|Some\(\(-?\d+, -?\d+\)\)|panic', rest)
        cnt['W']+=1
        x=a*b; q=x//m; r=x-q*m
        e1 = f"Some(({q}, {r}))" if abs(q)<=MAX else 'None'
        if outs[0]!=e1: bad['W256'].append((a,b,m,outs[0],e1))
        y = b if b!=0 else 1
        x=a*10**pw; q=x//y; r=x-q*y
        e2 = f"Some(({q}, {r}))" if abs(q)<=MAX else 'None'
        if outs[1]!=e2: bad['Wshift'].append((a,pw,y,outs[1],e2))
print(dict(cnt))
for k,v in bad.items():
    print('==',k,len(v))
    for x in v[:4]: print('   ',x)
pos=[x for x in bad['Wshift'] if x[2]>0]
print('Wshift with positive divisor:', len(pos))
unexpl=[x for x in pos if not (x[0]<0 and (x[0]*10**x[1])%x[2]==0)]
print('  not exact-negative:', len(unexpl), unexpl[:3])
un2=[x for x in bad['W256'] if not ((x[0]<0)!=(x[1]<0) and (x[0]*x[1])%x[2]==0)]
print('W256 not (signs differ and exact):', len(un2), un2[:3])
