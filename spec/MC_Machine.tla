---------------------------- MODULE MC_Machine ----------------------------
(* The user-visible state machine at miniature constants (8-bit coefficients, *)
(* 2 fractional digits, native Int): a thread default rounding mode, an       *)
(* accumulator fed back into compound assignments, a set keyed by value.      *)
(* Every transition takes ANY outcome the predicates of FpDec.tla allow, so   *)
(* TLC explores every behaviour a conforming implementation may show and      *)
(* checks that the oracle itself is well-formed on every reachable state:     *)
(*   Satisfiable   - for every operation and operand some outcome is allowed  *)
(*                   (otherwise every implementation would be rejected),       *)
(*   ValueFunctional - all allowed results of one call denote the same value  *)
(*                   (the statements leave representation free, never value), *)
(*   ScaleBound    - no allowed result carries more than MaxFrac digits,       *)
(*   KeySet        - the set keyed by reduced fractions agrees with value      *)
(*                   equality (CmpVal = 0) of the inserted accumulators.       *)
EXTENDS NatInt, TLC, FiniteSets
CONSTANTS Depth, Pos
Operands == Pos \cup {0 - v : v \in Pos}
S == INSTANCE FpDec WITH ZAdd <- IAdd, ZSub <- ISub, ZMul <- IMul, ZCmp <- ICmp, ZFloorDivMod <- IFloorDivMod, ZLit <- ILit,
       ZNeg <- INeg, ZAbs <- IAbs, ZSign <- ISign, ZIsEven <- IIsEven, ZMod5Is0 <- IMod5Is0, ZPow10 <- IPow10, ZPow2 <- IPow2,
       ZDigits <- IDigits, MaxFrac <- 2, CoeffBits <- 7, CoeffMax <- 127, CoeffMin <- -128, MaxDigits <- 3
Outcomes == {S!Ret(c, f) : c \in -128..127, f \in 0..2} \cup {S!Fail}
Ys == {[c |-> c, f |-> f] : c \in Operands, f \in 0..2}
Ops == {"add", "sub", "mul", "div", "rem", "div_rounded", "mul_rounded", "quantize", "round"}
VARIABLES mode, acc, keys, vals, steps
vars == <<mode, acc, keys, vals, steps>>

Allowed(op, x, y, n, md) ==
  {o \in Outcomes :
     CASE op = "add" -> S!AddSubOk(x, y, FALSE, o) [] op = "sub" -> S!AddSubOk(x, y, TRUE, o)
       [] op = "mul" -> S!MulDecOk(x, y, md, o) [] op = "div" -> S!DivOk(x, y, md, o)
       [] op = "rem" -> S!RemOk(x, y, o) [] op = "div_rounded" -> S!DivRoundedOk(x, y, n, md, o)
       [] op = "mul_rounded" -> S!MulRoundedOk(x, y, n, md, o) [] op = "quantize" -> S!QuantizeOk(x, y, md, o)
       [] op = "round" -> S!RoundOk(x, n - 1, md, o)}
SameVal(o1, o2) == o1.c * 10^o2.f = o2.c * 10^o1.f
WellFormed(op, x, y, n, md) ==
  LET al == Allowed(op, x, y, n, md)  rets == {o \in al : o.k = "ret"} IN
  /\ al # {}                                                   \* Satisfiable
  /\ \A o1, o2 \in rets : SameVal(o1, o2)                      \* ValueFunctional
  /\ \A o \in rets : o.f <= 2 /\ -128 <= o.c /\ o.c <= 127     \* ScaleBound / range

Init == mode = "RoundHalfEven" /\ acc = [c |-> 0, f |-> 0] /\ keys = {} /\ vals = {} /\ steps = 0
SetMode == \E m \in S!Modes : mode' = m /\ UNCHANGED <<acc, keys, vals>> /\ steps' = steps + 1
Assign == \E op \in Ops, y \in Ys, n \in 0..2 :
            \E o \in Allowed(op, acc, y, n, mode) :
               /\ acc' = IF o.k = "ret" THEN [c |-> o.c, f |-> o.f] ELSE acc      \* a failing operator leaves the variable alone
               /\ UNCHANGED <<mode, keys, vals>> /\ steps' = steps + 1
Insert == keys' = keys \cup {S!Ratio(acc)} /\ vals' = vals \cup {acc} /\ UNCHANGED <<mode, acc>> /\ steps' = steps + 1
Next == steps < Depth /\ (SetMode \/ Assign \/ Insert)
Spec == Init /\ [][Next]_vars

OracleWellFormed == \A op \in Ops, y \in Ys, n \in 0..2 : WellFormed(op, acc, y, n, mode)
KeySet == /\ \A a, b \in vals : (S!CmpVal(a, b) = 0) <=> (S!Ratio(a) = S!Ratio(b))
          /\ Cardinality(keys) = Cardinality({S!Ratio(a) : a \in vals})
TypeOK == acc.f \in 0..2 /\ acc.c \in -128..127
=======================================================================
