---- MODULE FpDecP ----
\* Specification parametrised over the integer domain (spike for DESIGN 3.1)
EXTENDS Naturals
CONSTANTS ZAdd(_,_), ZSub(_,_), ZMul(_,_), ZCmp(_,_), ZFloorDivMod(_,_), ZLit(_), ZNeg(_), ZSign(_), ZIsEven(_), ZMod5Is0(_), ZPow10(_), ZPow2(_)
CONSTANTS MaxFrac, CoeffBits
Zero == ZLit(0)
One == ZLit(1)
Two == ZLit(2)
CoeffMax == ZSub(ZPow2(CoeffBits), One)
CoeffMin == ZNeg(ZPow2(CoeffBits))
InRange(z) == ZCmp(CoeffMin, z) <= 0 /\ ZCmp(z, CoeffMax) <= 0
RoundQ(n, d, mode) ==    \* d > 0
  LET qr == ZFloorDivMod(n, d)  fl == qr[1]  r == qr[2]  up == ZAdd(fl, One)
      tz == IF ZSign(n) >= 0 THEN fl ELSE up
      az == IF ZSign(n) >= 0 THEN up ELSE fl
      h  == ZCmp(ZMul(Two, r), d)
      nearest(tie) == IF h > 0 THEN up ELSE IF h < 0 THEN fl ELSE tie
  IN IF ZSign(r) = 0 THEN fl ELSE
     CASE mode = "RoundFloor" -> fl [] mode = "RoundCeiling" -> up
       [] mode = "RoundDown" -> tz [] mode = "RoundUp" -> az
       [] mode = "RoundHalfUp" -> nearest(az) [] mode = "RoundHalfDown" -> nearest(tz)
       [] mode = "RoundHalfEven" -> nearest(IF ZIsEven(fl) THEN fl ELSE up)
       [] mode = "Round05Up" -> IF ZMod5Is0(tz) THEN az ELSE tz
RoundQS(n, d, mode) == IF ZSign(d) < 0 THEN RoundQ(ZNeg(n), ZNeg(d), mode) ELSE RoundQ(n, d, mode)
Ret(c, f) == [k |-> "ret", c |-> c, f |-> f]
Fail == [k |-> "fail", c |-> Zero, f |-> 0]
Max(a, b) == IF a > b THEN a ELSE b
AddAllowed(x, y) ==
  LET m == Max(x.f, y.f)  a == ZMul(x.c, ZPow10(m - x.f))  b == ZMul(y.c, ZPow10(m - y.f))  s == ZAdd(a, b)
  IN IF InRange(a) /\ InRange(b) /\ InRange(s) THEN {Ret(s, m)} ELSE {Fail}
DivRoundedAllowed(x, y, n, mode) ==
  IF n > MaxFrac \/ ZSign(y.c) = 0 THEN {Fail} ELSE
  LET q == RoundQS(ZMul(x.c, ZPow10(n + y.f)), ZMul(y.c, ZPow10(x.f)), mode) IN
  (IF InRange(q) THEN {Ret(q, n)} ELSE {Fail})
  \cup (IF ZSign(q) = 0 THEN {Ret(Zero, k) : k \in 0..n} ELSE {})
  \cup (IF q = CoeffMin THEN {Fail} ELSE {})
====
