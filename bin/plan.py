"""Per-property plans: which drivers (V), generators (G) and model-checking runs (MC) decide each property.
Sizes are (quick, thorough)."""
import json, os

NCH = 12   # parallel trace chunks

ASSUME_COMMON = [
    'TLC evaluates the TLA+ definitions correctly; BigInt.tla is checked against TLC native arithmetic by MC_BigInt',
    'the harness (harness/src) encodes arguments and results faithfully; it is rebuilt from /repo on every run',
    'sampled, not exhaustive, over 128-bit operand magnitudes: classes are built from the answer (ties, exact quotients, boundaries)',
    'C01-C19 are decided on the dev profile (overflow checks on); other build configurations are the subject of C20',
]


def size(c, q, t):
    return q if c.tier == 'quick' else t


def v(c, suite, q, t, chunks=NCH, **kw):
    n = size(c, q, t)
    ch = chunks if c.tier == 'quick' else 16 * max(1, min(8, n // 40000))
    traces = c.drive(suite, n, ch, **kw)
    c.validate_many(traces, 'V:' + suite)


def in_release(c, f):
    """run the passes of f once more in the release build (no overflow checks, no debug assertions): the statements about
    panics and values hold in every build, and a wrapping `+` or an `as` cast behaves differently there"""
    c.default_profile = 'release'
    try:
        f()
    finally:
        c.default_profile = 'dev'
    c.cov.setdefault('profiles', ['dev', 'release'])


def run(c):
    globals()['plan_' + c.pid](c)


def finish_args(c):
    return {'assumptions': ASSUME_COMMON + EXTRA_ASSUME.get(c.pid, [])}


EXTRA_ASSUME = {}


MODES = ['Round05Up', 'RoundCeiling', 'RoundDown', 'RoundFloor', 'RoundHalfDown', 'RoundHalfEven', 'RoundHalfUp', 'RoundUp']


def jnum(v):
    a, m = abs(v), []
    while a > 0:
        m.append(a % 10000)
        a //= 10000
    return {'s': (v > 0) - (v < 0), 'm': m}


def jdec(cf):
    d = jnum(cf[0])
    d['f'] = cf[1]
    return d


def grid(c, kind):
    """TLC enumerates the grid (spec/GenGrid.tla); returns the decoded vectors"""
    pay = c.generate('GenGrid', prefix='VEC', cfg='GenGrid_%s_%s' % (kind, c.tier))
    return [json.loads(p) for p in pay]


def run_vectors(c, calls, label):
    """execute and validate; unless the vectors set the thread mode themselves, every chunk runs under a different
    (mostly non-default) thread mode: operations the statements define without reference to the mode must not depend on it"""
    nch = 16 if len(calls) > 8000 else 4
    if any(e.get('ev') == 'set' for e in calls[:2000:50]) or (calls and calls[0].get('ev') == 'set'):
        traces = c.exec_vectors(calls, label, chunks=nch)
    else:
        per = (len(calls) + nch - 1) // nch
        traces = []
        for k in range(nch):
            part = calls[k * per:(k + 1) * per]
            if part:
                traces += c.exec_vectors([{'ev': 'set', 't': 1, 'mode': MODES[(k * 3 + 1) % 8]}] + part, '%s_%d' % (label, k), chunks=1)
    c.validate_many(traces, 'G:' + label)


def g_bounds(c, ops, kind='bin', with_modes=False, stride=1):
    """all pairs of boundary-class operands; the operation rotates over `ops` so that every op meets every class
    (stride > 1: every stride-th pair, offset by the seed - used where the full product is too slow for the quick tier)"""
    calls = []
    vecs = grid(c, 'bounds')
    if stride > 1:
        vecs = sorted(vecs, key=lambda v: json.dumps(v, sort_keys=True))[c.seed % stride::stride]
    if with_modes:
        per = (len(vecs) + 7) // 8
    for i, vv in enumerate(vecs):
        if with_modes and i % per == 0:
            calls.append({'ev': 'set', 't': 1, 'mode': MODES[i // per]})
        op = ops[(i + i // len(ops)) % len(ops)]
        if kind == 'bin':
            calls.append({'ev': 'bin', 't': 1, 'op': op, 'x': vv['x'], 'y': vv['y'], 'xt': 'dec', 'yt': 'dec', 'n': [0, 18, 2, 9][(i // 7) % 4], 'acc': 0, 'form': i % 4})
        else:
            calls.append({'ev': 'cmp', 't': 1, 'op': op, 'x': vv['x'], 'y': vv['y'], 'xt': 'dec', 'yt': 'dec'})
    run_vectors(c, calls, 'bounds')


def g_small(c, ops):
    """all small operand tuples (x, y, n) under all eight modes; the operation rotates over `ops`"""
    vecs = grid(c, 'small')
    calls = []
    for mi, mode in enumerate(MODES):
        calls.append({'ev': 'set', 't': 1, 'mode': mode})
        for i, (xc, xf, yc, yf, n) in enumerate(vecs):
            op = ops[(i + mi) % len(ops)]
            x, y = jdec((xc, xf)), jdec((yc, yf))
            if op in ('round', 'checked_round'):
                calls.append({'ev': 'un', 't': 1, 'op': op, 'x': x, 'n': n - 1})
            elif op == 'fmt':
                calls.append({'ev': 'fmt', 't': 1, 'x': x, 'fi': (i * 7) % 40, 'hasP': 1, 'p': n, 'hasW': i % 2, 'w': (i * 3) % 12})
            else:
                calls.append({'ev': 'bin', 't': 1, 'op': op, 'x': x, 'y': y, 'xt': 'dec', 'yt': 'dec', 'n': n, 'acc': 0, 'form': i % 4})
    # every mode starts a fresh chunk boundary: exec_vectors splits evenly, so repeat the set event at chunk starts
    run_vectors_with_modes(c, calls, 'small')


def run_vectors_with_modes(c, calls, label):
    """split into chunks that each start with the set event in force"""
    nch = 16
    per = (len(calls) + nch - 1) // nch
    out, cur = [], None
    chunks = []
    for i, e in enumerate(calls):
        if i % per == 0:
            chunks.append([])
            if cur is not None and e['ev'] != 'set':
                chunks[-1].append(cur)
        if e['ev'] == 'set':
            cur = e
        chunks[-1].append(e)
    traces = []
    for k, ch in enumerate(chunks):
        traces += c.exec_vectors(ch, '%s%d' % (label, k), chunks=1)
    c.validate_many(traces, 'G:' + label)


def g_operands(c, make):
    """every boundary-class operand in every scale 0..18 (TLC grid "operands"); make(x, i) yields the call descriptions"""
    calls = []
    for i, x in enumerate(grid(c, 'operands')):
        calls += make(x, i)
    run_vectors(c, calls, 'operands')


def x_classes_for(t):
    lo, hi = INT_RANGE[t]
    return X_CLASSES + [(lo, 0), (hi, 0), (lo * 100 if abs(lo * 100) < 2**127 else lo, 2 if abs(lo * 100) < 2**127 else 0), (hi - 1, 0), (-hi if -hi > -(2**127) else hi, 0)]


def g_intforms(c, ops, with_modes=False):
    """every integer type x operand position x integer class (type MIN/MAX, -1, 0, 1, ...) x Decimal class (incl. the
    Decimal images of that type's bounds); the operation rotates over `ops`"""
    calls = []
    i = 0
    for mi, mode in enumerate(MODES if with_modes else ['RoundHalfEven']):
        calls.append({'ev': 'set', 't': 1, 'mode': mode})
        for t in INT_TYPES9:
            for ii in range(1, 14 if t == 'i128' else 13):
                # class 13 (i128 only): i128::MIN itself - a legal integer operand although no Decimal has that coefficient
                iv = jdec((-2**127 if ii == 13 else int_class(t, ii), 0))
                for xc in x_classes_for(t):
                    for pos in (0, 1):
                        for op in ops:
                            i += 1
                            n = i % 19
                            if pos == 0:
                                calls.append({'ev': 'bin', 't': 1, 'op': op, 'x': jdec(xc), 'y': iv, 'xt': 'dec', 'yt': t, 'n': n, 'acc': 0, 'form': i % 4})
                            else:
                                calls.append({'ev': 'bin', 't': 1, 'op': op, 'x': iv, 'y': jdec(xc), 'xt': t, 'yt': 'dec', 'n': n, 'acc': 0, 'form': i % 4})
    run_vectors_with_modes(c, calls, 'intforms')


def max_quotient_cases():
    """(x, y, k): x * 10^k = MAX * y + r with 0 < r < y - the floor quotient is the largest coefficient, so every mode that
    rounds up must signal overflow and every mode that rounds down must return exactly i128::MAX"""
    MAXC = 2**127 - 1
    out = []
    for k in (1, 2, 3):
        pk = 10**k
        ys = [y for y in range(3, pk) if y % 2 and y % 5]
        if k == 3:
            ys = ys[::13]
        for y in ys:
            r = (-MAXC * y) % pk
            if 0 < r < y:
                out.append(((MAXC * y + r) // pk, y, k))
    return out


def g_maxquot(c, kind):
    calls = []
    cases = max_quotient_cases()
    for mode in MODES:
        calls.append({'ev': 'set', 't': 1, 'mode': mode})
        for i, (x, y, k) in enumerate(cases):
            for sx, sy in ((1, 1), (-1, 1), (1, -1), (-1, -1)):
                if kind == 'div':
                    q = i % 16
                    p = 18 + q - k
                    if p > 18:
                        q, p = k, 18
                    for op in ('div', 'checked_div'):
                        calls.append({'ev': 'bin', 't': 1, 'op': op, 'x': jdec((sx * x, p)), 'y': jdec((sy * y, q)), 'xt': 'dec', 'yt': 'dec', 'n': 0, 'acc': 0, 'form': i % 4})
                elif kind == 'div_rounded':
                    q = i % 10
                    n = max(k - q, 0) + (i % 5)
                    p = n + q - k
                    if 0 <= p <= 18 and n <= 18:
                        calls.append({'ev': 'bin', 't': 1, 'op': 'div_rounded', 'x': jdec((sx * x, p)), 'y': jdec((sy * y, q)), 'xt': 'dec', 'yt': 'dec', 'n': n, 'acc': 0, 'form': i % 4})
                else:
                    calls.append({'ev': 'wide', 't': 1, 'op': 'i128_shifted_div_rounded', 'a': jnum(sx * x), 'b': jnum(0), 'k': k, 'm': jnum(sy * y), 'mode': mode})
                    if sy > 0:
                        calls.append({'ev': 'wide', 't': 1, 'op': 'i128_shifted_div_mod_floor', 'a': jnum(sx * x), 'b': jnum(0), 'k': k, 'm': jnum(y), 'mode': mode})
    run_vectors_with_modes(c, calls, 'maxquot')


def knuth_cases(c):
    """operands realising every digit class of the 256/128-bit division (TLC grid "knuth"): normalisation shift, divisor
    words (yn1, yn0), quotient digit, first partial remainder (incl. the classes where the corrected remainder is exactly
    0 or 2^64), stage (0: first digit via a*b, 1: second digit via a*b, 2: first digit via a*10^k).
    Returns lists of ('mul', a, b, m) and ('shift', a, k, m)."""
    B = 1 << 64
    MAXC = 2**127 - 1
    out = []
    for nbc, y1c, y0c, qc, rc, st in grid(c, 'knuth'):
        nb = [1, 2, 32, 40, 52, 63][nbc]
        yn1 = [1 << 63, (1 << 63) + 1, B - 1, B - 2, (1 << 63) | 0x123456789ABCDEF][y1c]
        mask = (B - 1) & ~((1 << nb) - 1)
        yn0 = [(B - 1) & mask, 0, (1 << nb) & (B - 1), 0x0F0F0F0F0F0F0F0F & mask][y0c]
        m = ((yn1 << 64) | yn0) >> nb
        q = [1, 2, 3, (1 << 61) - 1, 1 << 32, 0x1234567][qc]
        edge = B - yn1
        rhat = min([0, 1, edge, max(edge - 1, 0), edge + 1, yn1 - 1, edge // 2, yn1 // 3][rc], yn1 - 1)
        top = q * yn1 + rhat
        if top >= 1 << 126 or m < B:
            continue
        if st in (0, 1):
            total = (128 - nb) if st == 0 else (64 - nb)
            if total < 0:
                continue
            t1 = min(126 - top.bit_length(), total)
            t2 = total - t1
            if t1 < 0 or t2 > 126:
                continue
            out.append(('mul', top << t1, 1 << t2, m))
        else:
            # a * 10^k: top must be a multiple of 5^k; solve q for it (yn1 invertible mod 5^k)
            if yn1 % 5 == 0 or nb < 40:
                continue
            k = min((128 - nb) * 100 // 332 + 1, 26)
            p5 = 5**k
            q2 = (-rhat * pow(yn1, -1, p5)) % p5
            if q2 == 0:
                q2 = p5
            top = q2 * yn1 + rhat
            sh = 128 - nb - k
            if q2 >= 1 << 62 or sh < 0 or top % p5:
                continue
            a = (top // p5) << sh
            if a > MAXC:
                continue
            out.append(('shift', a, k, m))
    return out


def g_knuth(c, kind):
    calls = []
    cases = knuth_cases(c)
    modes = MODES if c.tier != 'quick' else ['RoundFloor', 'RoundCeiling', 'RoundHalfEven', 'Round05Up']
    for mode in modes:
        calls.append({'ev': 'set', 't': 1, 'mode': mode})
        for i, cs in enumerate(cases):
            sx, sy = [(1, 1), (-1, 1), (1, -1), (-1, -1)][i % 4]
            if kind == 'wide':
                first = mode == modes[0]          # the floor primitives do not depend on the mode
                if cs[0] == 'mul':
                    if first:
                        for s1, s2 in (((1, 1), (-1, 1), (1, -1), (-1, -1)) if c.tier != 'quick' else ((sx, sy), (-sx, sy))):
                            calls.append({'ev': 'wide', 't': 1, 'op': 'i256_div_mod_floor', 'a': jnum(s1 * cs[1]), 'b': jnum(s2 * cs[2]), 'k': 0, 'm': jnum(cs[3]), 'mode': mode})
                else:
                    calls.append({'ev': 'wide', 't': 1, 'op': 'i128_shifted_div_rounded', 'a': jnum(sx * cs[1]), 'b': jnum(0), 'k': cs[2], 'm': jnum(sy * cs[3]), 'mode': mode})
                    if first:
                        calls.append({'ev': 'wide', 't': 1, 'op': 'i128_shifted_div_mod_floor', 'a': jnum(sx * cs[1]), 'b': jnum(0), 'k': cs[2], 'm': jnum(cs[3]), 'mode': mode})
                        calls.append({'ev': 'wide', 't': 1, 'op': 'i128_shifted_div_mod_floor', 'a': jnum(-sx * cs[1]), 'b': jnum(0), 'k': cs[2], 'm': jnum(cs[3]), 'mode': mode})
            elif cs[0] == 'shift':
                a, k, m = cs[1], cs[2], cs[3]
                if kind == 'div' and 18 <= k <= 36:
                    calls.append({'ev': 'bin', 't': 1, 'op': ['div', 'checked_div'][i % 2], 'x': jdec((sx * a, 0)), 'y': jdec((sy * m, k - 18)), 'xt': 'dec', 'yt': 'dec', 'n': 0, 'acc': 0, 'form': i % 4})
                elif kind == 'div_rounded':
                    q = min(18, k)
                    n = k - q
                    if n <= 18:
                        calls.append({'ev': 'bin', 't': 1, 'op': 'div_rounded', 'x': jdec((sx * a, 0)), 'y': jdec((sy * m, q)), 'xt': 'dec', 'yt': 'dec', 'n': n, 'acc': 0, 'form': i % 4})
    run_vectors_with_modes(c, calls, 'knuth')


def plan_C01(c):
    c.mc('MC_BigInt')
    c.mc('MC_Refine', cfg='MC_Refine_ok' if c.tier == 'quick' else 'MC_Refine_ok_full')
    g_bounds(c, ['add', 'sub', 'checked_add', 'checked_sub'])
    g_intforms(c, ['add', 'sub', 'checked_add', 'checked_sub'])
    v(c, 'c01', 6000, 200000)
    in_release(c, lambda: (g_intforms(c, ['add', 'sub', 'checked_add', 'checked_sub']), v(c, 'c01', 3000, 100000)))


def plan_C02(c):
    c.mc('MC_SpecLaws', cfg='MC_SpecLaws' if c.tier != 'quick' else 'MC_SpecLaws_quick')
    c.mc('MC_Refine', cfg='MC_Refine_halfdown_tie', expect='violation')
    g_small(c, ['mul', 'checked_mul'])
    g_bounds(c, ['mul', 'checked_mul'], with_modes=True)
    g_intforms(c, ['mul', 'checked_mul'])
    v(c, 'c02', 5000, 150000)
    in_release(c, lambda: (g_intforms(c, ['mul', 'checked_mul']), v(c, 'c02', 2500, 75000)))


def plan_C03(c):
    c.mc('MC_SpecLaws', cfg='MC_SpecLaws' if c.tier != 'quick' else 'MC_SpecLaws_quick')
    if c.tier != 'quick':
        c.mc('MC_Refine', cfg='MC_Refine_ok_full')     # DivRefines: checked_div_rounded at scale 18 + normalize refines DivOk
    c.mc('MC_Refine', cfg='MC_Refine_div_no_norm', expect='violation')
    g_small(c, ['div', 'checked_div'])
    g_maxquot(c, 'div')
    g_knuth(c, 'div')
    g_intforms(c, ['div', 'checked_div'], with_modes=c.tier != 'quick')
    if c.tier != 'quick':
        g_bounds(c, ['div', 'checked_div'], with_modes=True)
    v(c, 'c03', 4000, 120000)
    in_release(c, lambda: (g_intforms(c, ['div', 'checked_div']), v(c, 'c03', 2000, 60000)))


def plan_C04(c):
    c.mc('MC_Refine', cfg='MC_Refine_ok' if c.tier == 'quick' else 'MC_Refine_ok_full')
    c.mc('MC_Refine', cfg='MC_Refine_trunc_first', expect='violation')      # the double rounding of finding F2 must be rejected
    if c.tier != 'quick':
        # unbounded in the dividend (Apalache): the sticky-bit lemma of the repair - one rounding of (2 * trunc(n/d) +- 1) / (2 * 10^k)
        # equals one rounding of n / (d * 10^k) in every mode; the truncate-then-round variant (F2) is rejected
        c.apalache('AP_Round', 'Sticky')
        c.apalache('AP_Round', 'Sticky', expect='violation',
                   mutate=('RoundQ(2 * TDiv(n, d) + (IF n >= 0 THEN 1 ELSE 0 - 1), 2 * T, mode) = RoundQ(n, d * T, mode)',
                           'RoundQ(TDiv(n, d), T, mode) = RoundQ(n, d * T, mode)'))
    g_small(c, ['div_rounded', 'mul_rounded', 'quantize'])
    g_bounds(c, ['div_rounded', 'mul_rounded', 'quantize'], with_modes=True, stride=1 if c.tier != 'quick' else 3)
    g_maxquot(c, 'div_rounded')
    g_knuth(c, 'div_rounded')
    g_intforms(c, ['div_rounded', 'quantize'], with_modes=c.tier != 'quick')
    v(c, 'c04', 5000, 150000)
    in_release(c, lambda: v(c, 'c04', 2500, 75000))


def plan_C05(c):
    c.mc('MC_SpecLaws', cfg='MC_SpecLaws' if c.tier != 'quick' else 'MC_SpecLaws_quick')
    c.mc('MC_Refine', cfg='MC_Refine_halfdown_tie', expect='violation')
    c.mc('MC_Refine', cfg='MC_Refine_far_zero', expect='violation')      # round.rs "far" branch: directed modes must still move away from zero
    if c.tier != 'quick':
        c.mc('MC_Refine', cfg='MC_Refine_ok_full')
        # unbounded in the numerator: the oracle's rounding function against the declarative definition of the eight modes,
        # symbolic integers (Apalache); MC_SpecLaws!NativeCopy ties the native copy in AP_Round.tla to FpDec!RoundQ
        c.apalache('AP_Round', 'Laws')
        c.apalache('AP_Round', 'Laws', expect='violation', mutate=('nearest(IF fl % 2 = 0 THEN fl ELSE up)', 'nearest(up)'))
    # the kernel grid: every (n, d) x 8 modes x sign of d
    calls = []
    for n, d in grid(c, 'kernel'):
        for mode in MODES:
            for sg in (1, -1):
                calls.append({'ev': 'kern', 't': 1, 'x': jnum(n), 'y': jnum(sg * d), 'mode': mode})
    run_vectors(c, calls, 'kernel')
    g_small(c, ['round', 'checked_round'])
    # every shift 1..38 x head class x remainder class {0, 1, half-1, half, half+1, unit-1} x sign x scale, both forms, 8 modes
    MAXC = 2**127 - 1
    calls = []
    vecs = grid(c, 'round')
    for mode in MODES:
        calls.append({'ev': 'set', 't': 1, 'mode': mode})
        for sh, hc, rc, sg, f in vecs:
            unit = 10**sh
            hmax = MAXC // unit
            head = max(0, [0, 1, hmax - 1, hmax][hc])
            half = unit // 2
            coef = head * unit + [0, 1, half - 1, half, half + 1, unit - 1][rc]
            if coef > MAXC:
                coef = MAXC
            for op in ('round', 'checked_round'):
                calls.append({'ev': 'un', 't': 1, 'op': op, 'x': jdec((sg * coef, f)), 'n': f - sh})
    # far shifts: n below f - 38 down to the ends of the i8 range, where the value is less than half a unit of 10^-n
    for mode in MODES:
        calls.append({'ev': 'set', 't': 1, 'mode': mode})
        for f in (0, 1, 18):
            for n in (f - 38, f - 39, f - 40, -100, -126, -127, -128, 127, 126, f, f - 1):
                for coef in (0, 1, 5, 10**18, 4 * 10**37, MAXC):
                    for sg in ((1, -1) if coef else (1,)):
                        for op in ('round', 'checked_round'):
                            calls.append({'ev': 'un', 't': 1, 'op': op, 'x': jdec((sg * coef, f)), 'n': n})
    run_vectors_with_modes(c, calls, 'roundgrid')
    v(c, 'c05', 6000, 200000)
    in_release(c, lambda: v(c, 'c05', 3000, 100000))


ALPHABET = [[48], [49], [53], [57], [46], [101], [69], [43], [45], [32], [120], [95], [195, 169]]


def plan_C06(c):
    # all strings over the class alphabet up to the length bound, enumerated by TLC
    calls = []
    forms = ['from_str', 'try_from_str', 'try_from_string', 'from_str_radix']
    calls.append({'ev': 'parse', 't': 1, 'form': 'from_str', 'radix': 10, 'bs': []})
    for i, idx in enumerate(grid(c, 'strings')):
        bs = [b for k in idx for b in ALPHABET[k - 1]]
        calls.append({'ev': 'parse', 't': 1, 'form': forms[i % 4], 'radix': 10, 'bs': bs})
    run_vectors(c, calls, 'strings')
    g_parser_paths(c)
    g_parse_scaling(c)
    v(c, 'c06', 3000, 80000)
    in_release(c, lambda: (g_parse_scaling(c), v(c, 'c06', 1500, 40000)))


def g_parse_scaling(c):
    """literals whose digits are a boundary coefficient and whose net exponent runs over the whole range: (1) the scaling
    bounds floor(MAX/10^k) + {-1, 0, 1, 2} with net exponent k (the product sits on the edge of the coefficient range) for
    every k, (2) machine-word boundaries (2^32, 2^53, 2^63, 2^64, 2^96, 10^19 and neighbours) with every net exponent -20..40;
    each in four spellings (sign, exponent sign / case, a fraction point moved into the digits, leading zeros)."""
    MAXC = 2**127 - 1
    forms = ['from_str', 'try_from_str', 'try_from_string', 'from_str_radix']
    cases = []
    for k in range(0, 39):
        for d in (-1, 0, 1, 2):
            cases.append((MAXC // 10**k + d, k))
    words = [2**32 - 1, 2**32, 2**53, 2**53 + 1, 2**63 - 1, 2**63, 2**63 + 1, 2**64 - 1, 2**64, 2**64 + 1, 2**96, 10**19 - 1, 10**19, 10**19 + 1,
             17014118346046923173, 17014118346046923174, 2**127 - 1, 2**127]
    for w in words:
        for e in range(-20, 41):
            cases.append((w, e))
    calls = []
    for i, (cv, e) in enumerate(cases):
        ds = str(cv)
        sp = ['%se%d' % (ds, e), '-%sE%+d' % (ds, e), '+000%se%d' % (ds, e)]
        for j in sorted({1, len(ds) // 2, len(ds) - 1} - {0}):
            if j < len(ds):
                sp.append('%s.%se%d' % (ds[:-j], ds[-j:], e + j))       # same value, fraction point inside the digits
        for k2, lit in enumerate(sp):
            calls.append({'ev': 'parse', 't': 1, 'form': forms[(i + k2) % 4], 'radix': 10, 'bs': list(lit.encode())})
        if e == 0:
            # the bare integer spelling, every sign, through every entry point (each may have its own integer short-cut)
            for sg in ('', '-', '+', '-00'):
                for fm in forms:
                    calls.append({'ev': 'parse', 't': 1, 'form': fm, 'radix': 10, 'bs': list((sg + ds).encode())})
    run_vectors(c, calls, 'parse-scaling')


def g_parser_paths(c):
    """MC_Parser: the implementation-shaped step machine of parser.rs / from_str.rs in miniature.  (1) TLC checks it against
    the declarative rule ParseOk for every string up to the bound (and rejects three broken variants); (2) every distinct
    action path of the machine becomes implementation tests: representatives of the path, with each 2-digit chunk of the
    model expanded to m 8-digit chunks and each single digit to r < 8 digits."""
    c.mc('MC_Parser', cfg='MC_Parser_ok' if c.tier == 'quick' else 'MC_Parser_ok_thorough')
    for ctl in ('wrap_add', 'wrap', 'lz_invalid'):
        c.mc('MC_Parser', cfg='MC_Parser_' + ctl, expect='violation')
    paths = {}
    for pay in c.generate('MC_Parser', prefix='PATH', cfg='MC_Parser_gen_' + ('quick' if c.tier == 'quick' else 'thorough')):
        j = json.loads(pay)
        paths.setdefault(tuple(j['p']), []).append(tuple(j['s']))
    c.cov.setdefault('parser_paths', len(paths))
    forms = ['from_str', 'try_from_str', 'try_from_string', 'from_str_radix']
    calls = []
    nrep = 3 if c.tier == 'quick' else 8
    for pi, (path, strs) in enumerate(sorted(paths.items())):
        strs = sorted(strs)
        picks = {strs[(c.seed + k * max(1, len(strs) // nrep)) % len(strs)] for k in range(nrep)}
        for bs in sorted(picks):
            bs = list(bs)
            for (m, r) in ((1, 1), (2, 1), (1, 7), (3, 3), (5, 2)):
                out, i = [], 0
                for tag in path:
                    if tag in ('iC', 'fC'):
                        a, b = bs[i], bs[i + 1]
                        out += [a] * (4 * m) + [b] * (4 * m)
                        i += 2
                    elif tag in ('iS', 'fS'):
                        out += [bs[i]] * r
                        i += 1
                    elif tag in ('sign', 'z', 'dot', 'e', 'esign', 'X', 'Xcap'):
                        out.append(bs[i])
                        i += 1
                out += bs[i:]            # whatever the machine never consumed (junk, or nothing)
                calls.append({'ev': 'parse', 't': 1, 'form': forms[(pi + m) % 4], 'radix': 10, 'bs': out})
    run_vectors(c, calls, 'parser-paths')


def plan_C07(c):
    g_operands(c, lambda x, i: [{'ev': 'str', 't': 1, 'x': x}])
    v(c, 'c07', 3000, 100000)
    in_release(c, lambda: v(c, 'c07', 1500, 50000))


def plan_C08(c):
    c.mc('MC_SpecLaws', cfg='MC_SpecLaws' if c.tier != 'quick' else 'MC_SpecLaws_quick')
    c.mc('MC_Refine', cfg='MC_Refine_cmp_sign', expect='violation')
    g_bounds(c, ['eq', 'ne', 'lt', 'le', 'gt', 'ge', 'cmp', 'partial_cmp', 'min', 'max'], kind='cmp')
    v(c, 'c08', 5000, 200000)
    in_release(c, lambda: v(c, 'c08', 2500, 100000))
    v(c, 'c08a', 2000, 60000)
    # hand-written ArchivedDecimal (Archive / Deserialize / CheckBytes) of the packed layout
    v(c, 'c08a', 1500, 60000, features=('packed', 'rkyv'), label='packed')


def plan_C09(c):
    c.mc('MC_SpecLaws', cfg='MC_SpecLaws' if c.tier != 'quick' else 'MC_SpecLaws_quick')
    c.mc('MC_Refine', cfg='MC_Refine_gcd_twos', expect='violation')      # RatioRefines: the binary gcd of as_integer_ratio.rs
    # ratio and digest of every boundary operand in every scale: all representations of a value meet in one digest entry
    g_operands(c, lambda x, i: [{'ev': 'ratio', 't': 1, 'x': x}, {'ev': 'hash', 't': 1, 'x': x}, {'ev': 'hs', 't': 1, 'op': ['insert', 'contains', 'remove'][i % 3], 'x': x}])
    v(c, 'c09', 5000, 150000)
    in_release(c, lambda: v(c, 'c09', 2500, 75000))


def plan_C10(c):
    c.mc('MC_Refine', cfg='MC_Refine_rem_loop', expect='violation')
    g_bounds(c, ['rem', 'checked_rem'])
    g_small(c, ['rem', 'checked_rem'])
    g_intforms(c, ['rem', 'checked_rem'])
    v(c, 'c10', 6000, 200000)
    in_release(c, lambda: (g_intforms(c, ['rem', 'checked_rem']), v(c, 'c10', 3000, 100000)))


def plan_C11(c):
    # design level: format.rs in miniature (precision branches, "first round, then abs", sign from the original coefficient)
    c.mc('MC_Format', cfg='MC_Format_ok' if c.tier == 'quick' else 'MC_Format_ok_thorough')
    for ctl in ('abs_first', 'trunc', 'sign_after', 'no_clamp'):
        c.mc('MC_Format', cfg='MC_Format_' + ctl, expect='violation')
    g_small(c, ['fmt'])
    v(c, 'c11', 4000, 120000)
    in_release(c, lambda: v(c, 'c11', 2000, 60000))


def plan_C12(c):
    c.mc('MC_BigInt')
    # design level: the conversion algorithm of into_float.rs in miniature against the declarative ToFloat, all operands
    c.mc('MC_Float', cfg='MC_Float_into_ok_quick' if c.tier == 'quick' else 'MC_Float_into_ok')
    if c.tier != 'quick':
        c.mc('MC_Float', cfg='MC_Float_into_ok_fb5')
    for ctl in ('no_sticky', 'tie_up', 'adj_off'):
        c.mc('MC_Float', cfg='MC_Float_' + ctl, expect='violation')
    g_operands(c, lambda x, i: [{'ev': 'tofloat', 't': 1, 'x': x}])
    v(c, 'c12', 2500, 80000)
    in_release(c, lambda: v(c, 'c12', 2500, 80000))


def float_calls(c):
    """every exponent field of f32 and f64 x fraction class x sign (TLC grid "floats")"""
    calls = []
    for w, sg, bexp, fc in grid(c, 'floats'):
        fb = 52 if w == 64 else 23
        full = (1 << fb) - 1
        frac = [0, 1, full, full // 3, 1 << (fb - 1), (1 << (fb - 1)) + 1, full - 1, 0x2AAAA][fc] & full
        calls.append({'ev': 'fromfloat', 't': 1, 'w': w, 'sign': sg, 'bexp': bexp, 'frac': jnum(frac)['m']})
    return calls


def plan_C13(c):
    # design level: decode / cut-off / approx_rational / normalize of from_float.rs in miniature against FromFloat, all mini floats
    c.mc('MC_Float', cfg='MC_Float_from_ok')
    c.mc('MC_Float', cfg='MC_Float_from_ok_fb5')
    for ctl in ('trunc', 'no_norm', 'cutoff'):
        c.mc('MC_Float', cfg='MC_Float_' + ctl, expect='violation')
    # every exponent field of both widths x fraction classes x sign, enumerated by TLC
    run_vectors(c, float_calls(c), 'floats')
    # the floats nearest to the decimal ties (k + 1/2) * 10^-j around the 18-digit rounding position, and their neighbours
    import struct
    calls = []
    for k in list(range(0, 40)) + [99, 100, 12345, 10**6, 10**9 + 7]:
        for j in (17, 18, 19):
            val = float('%d5e-%d' % (k, j + 1))
            for w in (64, 32):
                bits = struct.unpack('<Q', struct.pack('<d', val))[0] if w == 64 else struct.unpack('<I', struct.pack('<f', val))[0]
                fb = 52 if w == 64 else 23
                for off in (-1, 0, 1):
                    for sg in (0, 1):
                        b = bits + off
                        calls.append({'ev': 'fromfloat', 't': 1, 'w': w, 'sign': sg, 'bexp': (b >> fb) & ((1 << (11 if w == 64 else 8)) - 1),
                                      'frac': jnum(b & ((1 << fb) - 1))['m']})
    run_vectors(c, calls, 'decties')
    v(c, 'c13', 3000, 100000)
    in_release(c, lambda: (run_vectors(c, float_calls(c), 'floats'), v(c, 'c13', 1500, 50000)))


INT_TYPES10 = ['u8', 'i8', 'u16', 'i16', 'u32', 'i32', 'u64', 'i64', 'i128', 'u128']


def plan_C14(c):
    # design level: integral test by remainder + range of the target type (into_int.rs) refines IntoIntKind; the round-trip-cast variant is rejected
    c.mc('MC_Refine', cfg='MC_Refine_cast_range', expect='violation')
    if c.tier != 'quick':
        c.mc('MC_Refine', cfg='MC_Refine_ok_full')
    # d * 10^k for every small d and every k, written with f <= min(k, 18) fractional digits (integral), and the
    # same coefficient + 1 (non-integral when f > 0); the target type rotates over all ten types
    MAXC = 2**127 - 1
    calls = []
    for i, (d, k, f, sg) in enumerate(grid(c, 'ints')):
        coef = d * 10**k
        if coef > MAXC:
            continue
        ty = INT_TYPES10[(i + i // 10) % 10]
        calls.append({'ev': 'toint', 't': 1, 'ty': ty, 'x': jdec((sg * coef, f))})      # integral iff k >= f
        if i % 3 == 0 and coef + 1 <= MAXC:
            calls.append({'ev': 'toint', 't': 1, 'ty': ty, 'x': jdec((sg * (coef + 1), f))})
    run_vectors(c, calls, 'ints')
    # From<int> / TryFrom<u128>: every power of two with its neighbours inside each type's range, and the type bounds
    calls = []
    for t in INT_TYPES10:
        lo, hi = (0, 2**128 - 1) if t == 'u128' else (-2**127, 2**127 - 1) if t == 'i128' else INT_RANGE[t]
        vals = {lo, hi, lo + 1, hi - 1, 0, 1, -1}
        for k in range(0, 129):
            for d in (-1, 0, 1):
                vals |= {2**k + d, -(2**k) + d}
        for val in sorted(x for x in vals if lo <= x <= hi):
            calls.append({'ev': 'fromint', 't': 1, 'ty': t, 'v': jnum(val)})
    run_vectors(c, calls, 'fromints')
    g_operands(c, lambda x, i: [{'ev': 'toint', 't': 1, 'ty': INT_TYPES10[i % 10], 'x': x}])
    v(c, 'c14', 6000, 200000)
    in_release(c, lambda: v(c, 'c14', 3000, 100000))


def plan_C15(c):
    c.mc('MC_SpecLaws', cfg='MC_SpecLaws' if c.tier != 'quick' else 'MC_SpecLaws_quick')
    c.mc('MC_Refine', cfg='MC_Refine_tight')      # non-vacuity of the oracle: neighbouring coefficients and wrong failure signals are rejected
    c.mc('MC_Refine', cfg='MC_Refine_floor_sign', expect='violation')      # unops.rs: floor that tests the dividend instead of the remainder (seed C15-e)
    # magnitude: the branch-free decimal logarithm at full size - both bit tricks for every argument, the ladder on every power of 2 / 10 +- 1
    c.mc('MC_Log10', cfg='MC_Log10_small')
    c.mc('MC_Log10', cfg='MC_Log10_ladder')
    c.mc('MC_Log10', cfg='MC_Log10_c4', expect='violation')
    c.mc('MC_Log10', cfg='MC_Log10_ladder16', expect='violation')
    uops = ['floor', 'ceil', 'trunc', 'fract', 'abs', 'nt_abs', 'neg', 'neg_ref', 'signum']
    oops = ['magnitude', 'eq_zero', 'eq_one', 'is_negative', 'is_positive', 'is_zero', 'is_one', 'nt_is_negative', 'nt_is_positive']
    # every single point (powers of two / ten / five with neighbours, scaling bounds) x every scale; three unary and three
    # observation operations per operand, rotating so that every operation meets every point in some scale
    g_operands(c, lambda x, i: [{'ev': 'un', 't': 1, 'op': uops[(i + j) % len(uops)], 'x': x, 'n': 0} for j in range(3)]
               + [{'ev': 'obs', 't': 1, 'op': oops[(i + j) % len(oops)], 'x': x} for j in range(3)]
               + ([{'ev': 'un', 't': 1, 'op': 'ceil', 'x': x, 'n': 0}, {'ev': 'un', 't': 1, 'op': 'floor', 'x': x, 'n': 0},
                   {'ev': 'obs', 't': 1, 'op': 'eq_one', 'x': x}, {'ev': 'obs', 't': 1, 'op': 'magnitude', 'x': x}] if i % 2 == 0 else []))
    # the constants the predicates are stated against
    consts = [{'ev': 'const', 't': 1, 'name': n} for n in ['ZERO', 'ONE', 'NEG_ONE', 'TWO', 'TEN', 'MAX', 'MIN', 'DELTA', 'default', 'nt_zero', 'nt_one', 'MAX_N_FRAC_DIGITS']]
    consts += [{'ev': 'intratio', 't': 1, 'ty': t, 'v': jnum(int_class(t, k))} for t in INT_TYPES9 for k in (1, 2, 3, 6, 7)]
    run_vectors(c, consts, 'consts')
    v(c, 'c15', 6000, 200000)
    in_release(c, lambda: v(c, 'c15', 3000, 100000))


def plan_C16(c):
    c.mc('MC_Knuth', cfg='MC_Knuth_ok' if c.tier == 'quick' else 'MC_Knuth_ok_w4')
    c.mc('MC_Knuth', cfg='MC_Knuth_f1', expect='violation')     # the sign fix-up of finding F1 must be rejected
    c.mc('MC_Knuth', cfg='MC_Knuth_mul_carry', expect='violation')      # u128_mul_u128 without the middle carry must be rejected
    if c.tier != 'quick':
        # unbounded in the dividend: the sign fix-up of the floor division for every integer n (Apalache); the pre-fix variant (finding F1) is rejected
        c.apalache('AP_FloorFix', 'FloorOk')
        c.apalache('AP_FloorFix', 'FloorOk', expect='violation',
                   mutate=('ELSE IF r0 = 0 THEN <<0 - q0, 0>> ELSE <<0 - q0 - 1, m - r0>>', 'ELSE <<0 - q0 - 1, m - r0>>'))
    g_maxquot(c, 'wide')
    g_knuth(c, 'wide')
    v(c, 'c16', 4000, 120000)
    in_release(c, lambda: v(c, 'c16', 2000, 60000))


FORM_OPS = ['add', 'sub', 'mul', 'div', 'rem', 'checked_add', 'checked_sub', 'checked_mul', 'checked_div', 'checked_rem',
            'div_rounded', 'quantize', 'eq', 'lt', 'mul_rounded']
INT_TYPES9 = ['u8', 'i8', 'u16', 'i16', 'u32', 'i32', 'u64', 'i64', 'i128']
INT_RANGE = {'u8': (0, 2**8 - 1), 'i8': (-2**7, 2**7 - 1), 'u16': (0, 2**16 - 1), 'i16': (-2**15, 2**15 - 1), 'u32': (0, 2**32 - 1),
             'i32': (-2**31, 2**31 - 1), 'u64': (0, 2**64 - 1), 'i64': (-2**63, 2**63 - 1), 'i128': (-(2**127 - 1), 2**127 - 1)}
X_CLASSES = [(0, 0), (0, 3), (1, 0), (10, 1), (1000, 3), (-1, 0), (15, 1), (-25, 1), (12345, 3), (7, 18), (-3, 17),
             (2**127 - 1, 0), (-(2**127 - 1), 2), (10**18, 18), (5 * 10**17, 18), (17014118346046923173168730371588410572, 1),
             (-100, 2), (-700, 2), (700, 2), (-10**18, 18),
             (-(2**126), 0), (-(2**126), 2), (2**64, 5), (-(2**127 - 1), 0), (2**126, 1)]       # x op small integer lands exactly on -2^127 / 2^127       # integral values written with trailing zeros (equal to the integer classes -1, -7, 7)


def int_class(ty, ii):
    lo, hi = INT_RANGE[ty]
    return [0, 1, -1 if lo < 0 else 5, 7, -7 if lo < 0 else 100, hi, lo, 2, 10, hi - 1, lo + 1, 3][ii - 1]


def plan_C17(c):
    # every operation x integer type x operand position x Decimal class x integer class (TLC grid): each macro-stamped impl is
    # executed in its four reference forms and (where it exists) its two compound-assignment forms and compared with the
    # Decimal::from(i) reference; ty = 9 is the Decimal / Decimal row
    calls = []
    vecs = grid(c, 'forms')
    per = (len(vecs) + 3) // 4
    modes4 = ['RoundHalfEven', 'RoundFloor', 'RoundUp', 'Round05Up']
    for i, (op, ty, pos, xi, ii) in enumerate(vecs):
        if i % per == 0:
            calls.append({'ev': 'set', 't': 1, 'mode': modes4[i // per]})
        opn = FORM_OPS[op - 1]
        xcl = x_classes_for(INT_TYPES9[ty]) if ty < 9 else X_CLASSES
        if xi > len(xcl):
            continue
        x = jdec(xcl[xi - 1])
        n = (xi + ii) % 19
        if ty == 9:
            y = jdec(X_CLASSES[(xi * 7 + ii) % len(X_CLASSES)])
            if pos == 1:
                continue
            calls.append({'ev': 'forms', 't': 1, 'op': opn, 'x': x, 'y': y, 'xt': 'dec', 'yt': 'dec', 'n': n})
            continue
        if opn == 'mul_rounded':
            continue
        t = INT_TYPES9[ty]
        iv = jdec((int_class(t, ii), 0))
        if pos == 0:
            calls.append({'ev': 'forms', 't': 1, 'op': opn, 'x': x, 'y': iv, 'xt': 'dec', 'yt': t, 'n': n})
        else:
            calls.append({'ev': 'forms', 't': 1, 'op': opn, 'x': iv, 'y': x, 'xt': t, 'yt': 'dec', 'n': n})
        if opn in ('div_rounded', 'quantize') and pos == 0 and xi <= 12:
            calls.append({'ev': 'forms', 't': 1, 'op': opn, 'x': jdec((int_class(t, xi), 0)), 'y': iv, 'xt': t, 'yt': t, 'n': n})
    run_vectors_with_modes(c, calls, 'forms')
    impls = set()
    for e in calls:
        if e['ev'] == 'forms':
            impls.add((e['op'], e['xt'], e['yt']))
    c.cov['distinct_impl_rows_exercised'] = len(impls)      # x 4 reference forms (+ 2 assignment forms) each
    v(c, 'c17', 3000, 100000)
    in_release(c, lambda: v(c, 'c17', 1500, 50000))


def plan_C19(c):
    # MC: all interleavings of the mode machine; the negative controls must be rejected
    c.mc('MC_Modes', cfg='MC_Modes_ok' if c.tier == 'quick' else 'MC_Modes_ok_thorough')
    c.mc('MC_Modes', cfg='MC_Modes_global', expect='violation')
    c.mc('MC_Modes', cfg='MC_Modes_inherit', expect='violation')
    # G: every complete schedule of the model replayed with one real thread per model thread, in lock-step
    for cfg in (['MC_Modes_gen_quick', 'MC_Modes_gen_allmodes'] if c.tier == 'quick' else ['MC_Modes_gen_thorough', 'MC_Modes_gen_allmodes']):
        scheds = c.generate('MC_Modes', prefix='SCHED', cfg=cfg)
        replay_schedules(c, scheds, cfg)
    # V: free-running threads, internal mode reads (hook) gate
    v(c, 'threads:3:0', 24000, 120000, chunks=8)
    if c.tier != 'quick':
        v(c, 'threads:15:0', 6000, 200000, chunks=8)


def replay_schedules(c, scheds, label):
    import concurrent.futures as cf
    b = c.binary()
    nproc = 8
    per = (len(scheds) + nproc - 1) // nproc
    files = []
    for i in range(nproc):
        part = scheds[i * per:(i + 1) * per]
        if not part:
            continue
        fn = os.path.join(c.work, 'S_%s_%d.ndjson' % (label, i))
        with open(fn, 'w') as f:
            f.write('\n'.join(part) + '\n')
        files.append(fn)

    def one(fn):
        p = run_cmd([b, 'sched', fn], timeout=3600)
        if p.returncode != 0:
            raise ToolError('schedule replay failed: ' + p.stderr[-500:])
        return [json.loads(l) for l in p.stdout.splitlines() if l.strip()]
    with cf.ThreadPoolExecutor(max_workers=nproc) as ex:
        outs = list(ex.map(one, files))
    n = steps = 0
    for o in outs:
        for rec in o:
            if 'summary' in rec:
                n += rec['summary']['schedules']
                steps += rec['summary']['steps']
            else:
                c.violations.append(('G:%s: the real threads deviate from the schedule generated from the specification' % label, [rec]))
    c.cov.setdefault('schedules_replayed', 0)
    c.cov['schedules_replayed'] += n
    c.cov.setdefault('schedule_steps', 0)
    c.cov['schedule_steps'] += steps
    c.cov['evaluations'] += steps
    c.cov['traces_validated_against_impl'] += n
    if scheds and len(c.cov['samples']) < 8:
        c.cov['samples'].append({'schedule': json.loads(scheds[len(scheds) // 2])})
    for s in scheds:
        c.keys.add(s)


def pair_builds(c, all_traces, tag):
    """`pair` events: the complete event line of every call must be identical in every build"""
    base = all_traces['dev']
    pair_files = []
    for label, traces in all_traces.items():
        if label == 'dev':
            continue
        for i, (ta, tb) in enumerate(zip(base, traces)):
            la, lb = open(ta).read().splitlines(), open(tb).read().splitlines()
            out = os.path.join(c.work, 'P%s_%s_%d.ndjson' % (tag, label, i))
            with open(out, 'w') as f:
                for a, b in zip(la, lb):
                    ja = json.loads(a)
                    if ja['ev'] in ('set', 'get', 'accset', 'spawn'):
                        continue
                    f.write(json.dumps({'ev': 'pair', 't': 1, 'builds': ['dev', label], 'call': ja, 'outs': [a, b]}) + '\n')
                if len(la) != len(lb):
                    f.write(json.dumps({'ev': 'pair', 't': 1, 'builds': ['dev', label], 'call': {'note': 'traces differ in length'}, 'outs': [str(len(la)), str(len(lb))]}) + '\n')
            pair_files.append(out)
    c.validate_many(pair_files, 'pair' + tag)


def plan_C20(c):
    """the same seeded driver in several build configurations: every build's trace must be accepted by the same
    Trace.tla, and `pair` events require identical observables build by build"""
    n = size(c, 6400, 60000)
    chunks = 6 if c.tier == 'quick' else 16
    builds = [('dev', ('rkyv',)), ('release', ('rkyv',)), ('dev', ('packed', 'rkyv'))]
    if c.tier != 'quick':
        builds += [('relchk', ('rkyv',)), ('devnochk', ('rkyv',)),
                   ('release', ('packed', 'rkyv')), ('relchk', ('packed', 'rkyv')), ('devnochk', ('packed', 'rkyv'))]
    all_traces = {}
    for prof, feats in builds:
        label = prof + ('_packed' if 'packed' in feats else '')
        traces = c.drive('c20', n, chunks, profile=prof, features=feats, label=label)
        all_traces[label] = traces
        c.validate_many(traces, 'V:c20[%s]' % label)
    pair_builds(c, all_traces, 'V')
    # G: the single-point operand grid (unary operations) and boundary-class pairs (binary operations) in every build
    UN = ['floor', 'ceil', 'trunc', 'fract', 'abs', 'neg', 'round', 'checked_round']
    BIN = ['add', 'sub', 'mul', 'div', 'rem', 'checked_add', 'checked_sub', 'checked_mul', 'checked_div', 'checked_rem', 'div_rounded', 'mul_rounded', 'quantize']
    calls = [{'ev': 'set', 't': 1, 'mode': MODES[(c.seed * 3 + 1) % 8]}]
    ostride = 2 if c.tier == 'quick' else 1
    for i, x in enumerate(sorted(grid(c, 'operands'), key=lambda v: json.dumps(v, sort_keys=True))[c.seed % ostride::ostride]):
        op = UN[(i + i // len(UN)) % len(UN)]
        calls.append({'ev': 'un', 't': 1, 'op': op, 'x': x, 'n': [0, -1, 2, 17, -38][(i // 3) % 5]})
        if i % 4 == 0:
            calls.append([{'ev': 'ratio', 't': 1, 'x': x}, {'ev': 'hash', 't': 1, 'x': x}, {'ev': 'str', 't': 1, 'x': x}, {'ev': 'tofloat', 't': 1, 'x': x},
                          {'ev': 'obs', 't': 1, 'op': 'magnitude', 'x': x}][(i // 4) % 5])
    stride = 6 if c.tier == 'quick' else 2
    vecs = sorted(grid(c, 'bounds'), key=lambda v: json.dumps(v, sort_keys=True))[c.seed % stride::stride]
    for i, vv in enumerate(vecs):
        op = BIN[(i + i // len(BIN)) % len(BIN)]
        calls.append({'ev': 'bin', 't': 1, 'op': op, 'x': vv['x'], 'y': vv['y'], 'xt': 'dec', 'yt': 'dec', 'n': [0, 18, 2, 9][(i // 7) % 4], 'acc': 0, 'form': i % 4})
    # conversions: every exponent field of both float widths (every second fraction class), integers at every power of two
    fl = sorted(float_calls(c), key=lambda e: (e['w'], e['bexp'], e['sign'], str(e['frac'])))
    calls += fl[c.seed % 2::2]
    g_traces = {}
    for prof, feats in builds:
        if c.tier == 'quick' and 'packed' in feats:
            continue        # the packed layout changes loads and stores, not arithmetic: V driver above; grids in the thorough tier
        label = prof + ('_packed' if 'packed' in feats else '')
        g_traces[label] = c.exec_vectors(calls, 'grid_' + label, chunks=8, profile=prof, features=feats)
        c.validate_many(g_traces[label], 'G:grid[%s]' % label)
    pair_builds(c, g_traces, 'G')
    c.cov['builds'] = sorted(all_traces)


EXTRA_ASSUME['C20'] = ['build configurations are cargo profiles of the harness workspace (dev, release, relchk = release+overflow-checks+debug-assertions, '
                       'devnochk = dev without them) x feature packed; the fpdec crates are compiled with the same profile as path dependencies']


# ---------------------------------------------------------------- C18: Dec!(lit) programs
import re, subprocess, shutil
LIT_RE = re.compile(r'^[+-]?[0-9]+(\.[0-9]+([eE][+-]?[0-9]+)?|\.|[eE][+-]?[0-9]+)?$')   # one Rust literal token, optionally signed, no suffix


def compile_lits(c, lits):
    """returns {index: (coeff, scale)} for the literals that compile; the others fail to compile"""
    run = run_cmd
    d = os.path.join(HARN, 'lits')
    shutil.copy('/repo/Cargo.lock', os.path.join(d, 'Cargo.lock'))
    os.makedirs(os.path.join(d, 'src'), exist_ok=True)
    alive = list(range(len(lits)))
    failed = set()
    for attempt in range(4):
        head = ['use fpdec::{Dec, Decimal};', 'fn main() {', '    let v: Vec<(usize, Decimal)> = vec![']
        with open(os.path.join(d, 'src', 'main.rs'), 'w') as f:
            f.write('\n'.join(head) + '\n')
            for i in alive:
                f.write('(%d, Dec!(%s)),\n' % (i, lits[i]))
            f.write('    ];\n    for (i, d) in v { println!("{} {} {}", i, d.coefficient(), d.n_frac_digits()); }\n}\n')
        p = run(['cargo', 'build', '--offline', '--quiet', '--message-format=json'], cwd=d, timeout=1200)
        if p.returncode == 0:
            break
        bad = set()
        for line in p.stdout.splitlines():
            try:
                m = json.loads(line)
            except Exception:
                continue
            if m.get('reason') != 'compiler-message' or m['message'].get('level') != 'error':
                continue
            for sp in m['message'].get('spans', []):
                if sp.get('file_name', '').endswith('main.rs') and sp['line_start'] > len(head):
                    k = sp['line_start'] - len(head) - 1
                    if 0 <= k < len(alive):
                        bad.add(alive[k])
        if not bad:
            raise ToolError('literal program does not compile and no literal is blamed:\n' + p.stderr[-2000:])
        failed |= bad
        alive = [i for i in alive if i not in bad]
    else:
        raise ToolError('literal program still fails to compile after removing blamed literals')
    out = run([os.path.join(HARN, 'target', 'lits', 'debug', 'fpv-lits')], timeout=300)
    if out.returncode != 0:
        raise ToolError('literal program crashed: ' + out.stderr[-500:])
    res = {}
    for line in out.stdout.splitlines():
        i, co, sc = line.split()
        res[int(i)] = (int(co), int(sc))
    return res


def limbs(a):
    v = []
    while a > 0:
        v.append(a % 10000)
        a //= 10000
    return v


def plan_C18(c):
    # design level: the macro's own exponent folding agrees with from_str's for every string of the miniature parser machine
    c.mc('MC_Parser', cfg='MC_Parser_ok' if c.tier == 'quick' else 'MC_Parser_ok_thorough')
    c.mc('MC_Parser', cfg='MC_Parser_macro_bound', expect='violation')
    pay = c.generate('GenLits', prefix='LIT', cfg='GenLits_' + c.tier)
    lits = sorted(set(l for l in pay if LIT_RE.match(l)))
    c.cov['literals_generated'] = len(pay)
    c.cov['literals_valid_tokens'] = len(lits)
    batch = 6000
    events = []
    for b0 in range(0, len(lits), batch):
        part = lits[b0:b0 + batch]
        mac = compile_lits(c, part)
        # the same text through from_str on the real crate
        calls = [{'ev': 'parse', 't': 1, 'form': 'from_str', 'radix': 10, 'bs': list(l.encode())} for l in part]
        # (debug and release builds of the runtime side: an unchecked operation that panics in one wraps in the other)
        for prof in ('dev', 'release'):
            traces = c.exec_vectors(calls, 'lits%d%s' % (b0, prof), chunks=1, profile=prof)
            rts = [json.loads(x) for x in open(traces[0]) if json.loads(x)['ev'] == 'parse']
            assert len(rts) == len(part)
            for i, l in enumerate(part):
                if i in mac:
                    co, sc = mac[i]
                    m = {'k': 'ok', 's': (co > 0) - (co < 0), 'm': limbs(abs(co)), 'f': sc}
                else:
                    m = {'k': 'cerr'}
                events.append({'ev': 'lit', 't': 1, 'bs': list(l.encode()), 'text': l, 'mac': m, 'rt': rts[i]['out'], 'build': prof})
    nch = 8
    files = []
    per = (len(events) + nch - 1) // nch
    for i in range(nch):
        fn = os.path.join(c.work, 'L_%d.ndjson' % i)
        with open(fn, 'w') as f:
            for e in events[i * per:(i + 1) * per]:
                f.write(json.dumps(e) + '\n')
        files.append(fn)
    c.validate_many(files, 'lit')
    c.cov['macro_accepted'] = sum(1 for e in events if e['mac']['k'] == 'ok')
    c.cov['macro_rejected'] = sum(1 for e in events if e['mac']['k'] != 'ok')


EXTRA_ASSUME['C18'] = ['literals are restricted to single Rust literal tokens (optionally signed, no suffix, no underscores): the quantifier of C18; '
                       'a literal "fails to compile" iff rustc reports an error whose span is the line of that Dec!(..) invocation']
